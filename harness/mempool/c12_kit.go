// Package c12kit is the shared part of the C12 harness (mempool contents stay unique, bounded, current and
// correctly ordered). It is injected as the virtual package github.com/tendermint/tendermint/internal/verif/c12kit
// and used by the internal tests injected into mempool/v0 and mempool/v1.
//
// It contains
//   - the operation alphabet and the configuration space,
//   - Conn, a harness-owned proxy.AppConnMempool whose CheckTx responses are delivered by the harness
//     (socket-client semantics: set Response, release waiters, global callback, then request callback),
//   - Ref, a reference model in plain Go (list + LRU + in-flight queue),
//   - Inst, one real mempool instance driven operation by operation, with the oracles of the property,
//   - the explicit-state search (breadth first, state = operation path, dedup on a canonical encoding).
package c12kit

import (
	"crypto/sha256"
	"encoding/json"
	"fmt"
	"os"
	"runtime"
	"sort"
	"strconv"
	"strings"
	"sync"
	"time"

	abcicli "github.com/tendermint/tendermint/abci/client"
	abci "github.com/tendermint/tendermint/abci/types"
	"github.com/tendermint/tendermint/config"
	"github.com/tendermint/tendermint/crypto/ed25519"
	"github.com/tendermint/tendermint/internal/verif/gosched"
	"github.com/tendermint/tendermint/internal/verif/vr"
	"github.com/tendermint/tendermint/libs/clist"
	"github.com/tendermint/tendermint/libs/log"
	"github.com/tendermint/tendermint/mempool"
	sm "github.com/tendermint/tendermint/state"
	"github.com/tendermint/tendermint/types"
)

// ------------------------------------------------------------------------------------------------
// alphabet

// Transactions: two sizes (1 byte, 3 bytes), two of each. The tight byte limit (4) is hit exactly by one
// small + one large transaction.
var TxBytes = [][]byte{[]byte("a"), []byte("CCC"), []byte("b"), []byte("DDD")}
var TxNames = []string{"a", "C", "b", "D"}

const TightBytes = 4
const LooseBytes = 1 << 20

var txIndex = func() map[string]int {
	m := map[string]int{}
	for i, b := range TxBytes {
		m[string(b)] = i
	}
	return m
}()

var keyIndex = func() map[types.TxKey]int {
	m := map[types.TxKey]int{}
	for i, b := range TxBytes {
		m[types.Tx(b).Key()] = i
	}
	return m
}()

// TxOf maps transaction bytes to the alphabet index (-1: unknown).
func TxOf(b []byte) int {
	if i, ok := txIndex[string(b)]; ok {
		return i
	}
	return -1
}

// TxOfKey maps a transaction key to the alphabet index (-1: unknown).
func TxOfKey(k types.TxKey) int {
	if i, ok := keyIndex[k]; ok {
		return i
	}
	return -1
}

type Verdict struct {
	Name string
	Code uint32
	Prio int64
	Gas  int64
}

// Application verdicts. Gas 1 is the default; "ok-gas3" makes gas limits bite at a different place than
// byte limits.
var Verdicts = []Verdict{
	{"ok", 0, 0, 1},
	{"reject", 1, 0, 0},
	{"ok-gas3", 0, 0, 3},
	{"ok-p1", 0, 1, 1},
	{"ok-p2", 0, 2, 1},
}

const (
	VOk = iota
	VReject
	VOkGas3
	VOkP1
	VOkP2
)

// Cfg is one mempool configuration of the explored space.
type Cfg struct {
	Ver       int   `json:"ver"` // 0: v0.CListMempool, 1: v1.TxMempool
	Size      int   `json:"size"`
	MaxBytes  int64 `json:"max_txs_bytes"`
	CacheSize int   `json:"cache_size"`
	Keep      bool  `json:"keep_invalid"`
	Recheck   bool  `json:"recheck"`
	TTL       int64 `json:"ttl_num_blocks"`
}

func (c Cfg) String() string {
	return fmt.Sprintf("v%d size=%d maxbytes=%d cache=%d keepinvalid=%v recheck=%v ttl=%d", c.Ver, c.Size, c.MaxBytes, c.CacheSize, c.Keep, c.Recheck, c.TTL)
}

func (c Cfg) MempoolConfig() *config.MempoolConfig {
	m := config.DefaultMempoolConfig()
	m.Size = c.Size
	m.MaxTxsBytes = c.MaxBytes
	m.MaxTxBytes = 1 << 20
	m.CacheSize = c.CacheSize
	m.KeepInvalidTxsInCache = c.Keep
	m.Recheck = c.Recheck
	m.TTLNumBlocks = c.TTL
	m.TTLDuration = 0
	m.Broadcast = false
	if c.Ver == 1 {
		m.Version = config.MempoolV1
	}
	return m
}

// Configs enumerates the configuration space of one mempool version.
func Configs(ver int) []Cfg {
	var out []Cfg
	ttls := []int64{0}
	if ver == 1 {
		ttls = []int64{0, 1}
	}
	for _, size := range []int{2, 3} {
		for _, mb := range []int64{TightBytes, LooseBytes} {
			for _, cs := range []int{0, 1, 2, 2 * size} {
				for _, keep := range []bool{false, true} {
					for _, re := range []bool{true, false} {
						for _, ttl := range ttls {
							out = append(out, Cfg{ver, size, mb, cs, keep, re, ttl})
						}
					}
				}
			}
		}
	}
	return out
}

// Op is one operation of the alphabet.
type Op struct {
	K     string `json:"k"`               // check | deliver | submit | commit | flush
	Tx    int    `json:"tx,omitempty"`    // check, submit
	Peer  int    `json:"peer,omitempty"`  // check, submit
	V     int    `json:"v,omitempty"`     // deliver, submit: index into Verdicts
	Idx   int    `json:"idx,omitempty"`   // deliver: which pending request (0 = oldest)
	Block []int  `json:"block,omitempty"` // commit: transactions of the block, in order
	Codes []int  `json:"codes,omitempty"` // commit: DeliverTx code per block transaction (0 ok)
}

func (o Op) String() string {
	switch o.K {
	case "check":
		return fmt.Sprintf("CheckTx(%s,peer%d)", TxNames[o.Tx], o.Peer)
	case "submit":
		return fmt.Sprintf("CheckTx(%s,peer%d)+Deliver(%s)", TxNames[o.Tx], o.Peer, Verdicts[o.V].Name)
	case "deliver":
		return fmt.Sprintf("Deliver(#%d,%s)", o.Idx, Verdicts[o.V].Name)
	case "commit":
		var s []string
		for i, t := range o.Block {
			c := "ok"
			if o.Codes[i] != 0 {
				c = "bad"
			}
			s = append(s, TxNames[t]+":"+c)
		}
		return "Commit+Update[" + strings.Join(s, ",") + "]"
	case "flush":
		return "Flush"
	}
	return "?" + o.K
}

// Alphabet bounds of one search.
type Bounds struct {
	NTx        int   `json:"ntx"`
	Peers      []int `json:"peers"`
	MaxFlight  int   `json:"max_new_in_flight"`
	Depth      int   `json:"depth"`
	BlockMax   int   `json:"block_max"`
	OrderedBlk bool  `json:"ordered_blocks"`
	Submit     bool  `json:"submit_macro"`
}

func newMenu(ver int) []int {
	if ver == 0 {
		return []int{VOk, VReject, VOkGas3}
	}
	return []int{VOk, VReject, VOkGas3, VOkP1, VOkP2}
}

func recheckMenu(ver int) []int {
	if ver == 0 {
		return []int{VOk, VReject}
	}
	return []int{VOk, VReject, VOkP2}
}

func commitOps(b Bounds) []Op {
	ops := []Op{{K: "commit"}}
	for t := 0; t < b.NTx; t++ {
		for c := 0; c < 2; c++ {
			ops = append(ops, Op{K: "commit", Block: []int{t}, Codes: []int{c}})
		}
	}
	if b.BlockMax >= 2 {
		for t := 0; t < b.NTx; t++ {
			for u := 0; u < b.NTx; u++ {
				if t == u || (!b.OrderedBlk && u < t) {
					continue
				}
				codes := [][]int{{0, 0}, {0, 1}}
				if b.OrderedBlk {
					codes = [][]int{{0, 0}, {0, 1}, {1, 1}}
				}
				for _, cc := range codes {
					ops = append(ops, Op{K: "commit", Block: []int{t, u}, Codes: cc})
				}
			}
		}
	}
	return ops
}

// ------------------------------------------------------------------------------------------------
// Conn: the harness-owned application connection

// Pend is one request the mempool has issued and the application has not answered yet.
type Pend struct {
	Tx      int
	Recheck bool
	Flush   bool
	Sync    bool
	H       int64 // height (harness count) at which the request was issued
	DupRisk bool  // harness: issued for a tx that is in the pool while the cache has forgotten it

	rr   *abcicli.ReqRes
	resp chan *abci.ResponseCheckTx
	Done chan error // for a synchronous first-time CheckTx: completion of the calling goroutine

	// concurrent layer
	answered bool
	result   *abci.ResponseCheckTx
	verdict  *Verdict
}

// Conn implements proxy.AppConnMempool. Requests queue up (FIFO, as on an ABCI connection); the harness
// answers them with Deliver. A response is processed the way abci/client.socketClient.didRecvResponse does:
// Response set, waiters released, global callback, request callback.
type Conn struct {
	mu      sync.Mutex
	cb      abcicli.Callback
	Q       []*Pend
	Arrived chan struct{} // one token per synchronous request that has reached the connection
	// QueueFlush: FlushAsync requests are queued and answered automatically when they reach the head
	// (v0). When false FlushAsync is answered on the spot (v1 issues it from a free-running goroutine).
	QueueFlush bool
	// Conc, when set, switches the connection to the concurrent layer: every call is a scheduling point of
	// the cooperative scheduler and waiting is done through it (see concCheckTx / concFlushSync).
	Conc *concRun
}

func NewConn(queueFlush bool) *Conn {
	return &Conn{Arrived: make(chan struct{}, 256), QueueFlush: queueFlush}
}

func (c *Conn) SetResponseCallback(cb abcicli.Callback) { c.mu.Lock(); c.cb = cb; c.mu.Unlock() }
func (c *Conn) Error() error                            { return nil }

func (c *Conn) CheckTxAsync(req abci.RequestCheckTx) *abcicli.ReqRes {
	if c.Conc != nil {
		return c.concCheckTx(req, false).rr
	}
	p := &Pend{Tx: TxOf(req.Tx), Recheck: req.Type == abci.CheckTxType_Recheck, rr: abcicli.NewReqRes(abci.ToRequestCheckTx(req))}
	c.mu.Lock()
	c.Q = append(c.Q, p)
	c.mu.Unlock()
	return p.rr
}

func (c *Conn) CheckTxSync(req abci.RequestCheckTx) (*abci.ResponseCheckTx, error) {
	if c.Conc != nil {
		return c.concCheckTx(req, true).result, nil
	}
	p := &Pend{Tx: TxOf(req.Tx), Recheck: req.Type == abci.CheckTxType_Recheck, Sync: true,
		rr: abcicli.NewReqRes(abci.ToRequestCheckTx(req)), resp: make(chan *abci.ResponseCheckTx, 1)}
	c.mu.Lock()
	c.Q = append(c.Q, p)
	c.mu.Unlock()
	c.Arrived <- struct{}{}
	return <-p.resp, nil
}

func (c *Conn) FlushAsync() *abcicli.ReqRes {
	rr := abcicli.NewReqRes(abci.ToRequestFlush())
	if c.Conc != nil && c.Conc.scn.Mode == "socket" {
		c.mu.Lock()
		c.Q = append(c.Q, &Pend{Flush: true, Tx: -1, rr: rr})
		c.mu.Unlock()
		return rr
	}
	if !c.QueueFlush || c.Conc != nil {
		rr.Response = abci.ToResponseFlush()
		rr.Done()
		return rr
	}
	c.mu.Lock()
	c.Q = append(c.Q, &Pend{Flush: true, Tx: -1, rr: rr})
	c.mu.Unlock()
	return rr
}

func (c *Conn) FlushSync() error {
	if c.Conc != nil {
		c.concFlushSync()
		return nil
	}
	c.Pump()
	if c.Len() != 0 {
		panic("c12kit: FlushSync with unanswered requests in the sequential harness")
	}
	return nil
}

func (c *Conn) Len() int { return len(c.Snapshot()) }

// Snapshot returns the unanswered CheckTx requests, oldest first (queued Flush requests are not listed: they
// are answered automatically when they reach the head and have no effect on the mempool).
func (c *Conn) Snapshot() []*Pend {
	c.mu.Lock()
	defer c.mu.Unlock()
	var out []*Pend
	for _, p := range c.Q {
		if !p.Flush {
			out = append(out, p)
		}
	}
	return out
}

// Pump answers Flush requests that have reached the head of the queue.
func (c *Conn) Pump() {
	for {
		c.mu.Lock()
		if len(c.Q) == 0 || !c.Q[0].Flush {
			c.mu.Unlock()
			return
		}
		p := c.Q[0]
		c.Q = c.Q[1:]
		cb := c.cb
		c.mu.Unlock()
		res := abci.ToResponseFlush()
		p.rr.Response = res
		p.rr.Done()
		if cb != nil {
			cb(p.rr.Request, res)
		}
		p.rr.InvokeCallback()
	}
}

// Take removes the i-th unanswered CheckTx request (index into Snapshot) from the queue.
func (c *Conn) Take(i int) *Pend {
	c.mu.Lock()
	defer c.mu.Unlock()
	n := -1
	for k, p := range c.Q {
		if p.Flush {
			continue
		}
		n++
		if n == i {
			c.Q = append(append([]*Pend(nil), c.Q[:k]...), c.Q[k+1:]...)
			return p
		}
	}
	panic("c12kit: no such pending request")
}

// Answer processes the application's response to p the way the socket client does. For a synchronous
// request the waiting caller is released; what the caller then does is not awaited here.
func (c *Conn) Answer(p *Pend, v Verdict) {
	rsp := abci.ResponseCheckTx{Code: v.Code, Priority: v.Prio, GasWanted: v.Gas}
	res := abci.ToResponseCheckTx(rsp)
	c.mu.Lock()
	cb := c.cb
	c.mu.Unlock()
	p.rr.Response = res
	p.rr.Done()
	if cb != nil {
		cb(p.rr.Request, res)
	}
	p.rr.InvokeCallback()
	if p.Sync {
		p.resp <- res.GetCheckTx()
	}
}

// SortRechecks puts the pending synchronous recheck requests into the order given by rank (v1 issues them
// from concurrently running goroutines, so their arrival order carries no information).
func (c *Conn) SortRechecks(rank func(tx int) int) {
	c.mu.Lock()
	defer c.mu.Unlock()
	sort.SliceStable(c.Q, func(i, j int) bool {
		a, b := c.Q[i], c.Q[j]
		if a.Recheck && b.Recheck {
			return rank(a.Tx) < rank(b.Tx)
		}
		return false
	})
}

// ------------------------------------------------------------------------------------------------
// reference model

type lru struct {
	cap int
	l   []int // front (index 0) = least recently used
}

func (c *lru) has(t int) bool {
	for _, x := range c.l {
		if x == t {
			return true
		}
	}
	return false
}

func (c *lru) remove(t int) {
	for i, x := range c.l {
		if x == t {
			c.l = append(append([]int(nil), c.l[:i]...), c.l[i+1:]...)
			return
		}
	}
}

// push returns whether t was newly added and which entry was evicted (-1 none). cap 0 is the no-op cache:
// everything is new, nothing is remembered.
func (c *lru) push(t int) (added bool, evicted int) {
	evicted = -1
	if c.cap == 0 {
		return true, -1
	}
	if c.has(t) {
		c.remove(t)
		c.l = append(c.l, t)
		return false, -1
	}
	if len(c.l) >= c.cap {
		evicted = c.l[0]
		c.l = append([]int(nil), c.l[1:]...)
	}
	c.l = append(c.l, t)
	return true, evicted
}

type RefTx struct {
	T    int
	Prio int64
	Gas  int64
	H    int64
}

type RefPend struct {
	T       int
	Recheck bool
	H       int64
	DupRisk bool
	// Unexpected: the real mempool issued this request although the reference had refused the CheckTx; the
	// reference keeps it only so that the queues stay aligned and never admits it.
	Unexpected bool
}

// Ref is the reference model: pool list in arrival order, LRU of seen transactions, FIFO of unanswered
// requests, and the set of committed transactions the cache has remembered continuously since their commit.
type Ref struct {
	C     Cfg
	H     int64
	Pool  []RefTx
	Cache lru
	Q     []RefPend
	Rem   [8]bool
	// Forgot[t]: a first-time check of t was issued while t was already in the pool or in flight, because the
	// cache no longer held it (disabled, evicted, reset). Cleared when no first-time check of t is in flight.
	Forgot [8]bool
}

func NewRef(c Cfg) *Ref { return &Ref{C: c, Cache: lru{cap: c.CacheSize}} }

func (r *Ref) inPool(t int) int {
	for i, x := range r.Pool {
		if x.T == t {
			return i
		}
	}
	return -1
}

func (r *Ref) bytes() int64 {
	var n int64
	for _, x := range r.Pool {
		n += int64(len(TxBytes[x.T]))
	}
	return n
}

func (r *Ref) full(t int) bool {
	return len(r.Pool) >= r.C.Size || int64(len(TxBytes[t]))+r.bytes() > r.C.MaxBytes
}

func (r *Ref) cachePush(t int) bool {
	added, ev := r.Cache.push(t)
	if ev >= 0 {
		r.Rem[ev] = false
	}
	return added
}

func (r *Ref) cacheRemove(t int) { r.Cache.remove(t); r.Rem[t] = false }

func (r *Ref) removeAt(i int) { r.Pool = append(append([]RefTx(nil), r.Pool[:i]...), r.Pool[i+1:]...) }

// CheckTx returns "full", "in-cache" or "issued".
func (r *Ref) CheckTx(t int) string {
	if r.C.Ver == 0 && r.full(t) {
		return "full"
	}
	if !r.cachePush(t) {
		return "in-cache"
	}
	live := r.inPool(t) >= 0 || r.inFlight(t)
	if live {
		r.Forgot[t] = true
	}
	r.Q = append(r.Q, RefPend{T: t, H: r.H, DupRisk: live})
	return "issued"
}

func (r *Ref) inFlight(t int) bool {
	for _, p := range r.Q {
		if p.T == t && !p.Recheck {
			return true
		}
	}
	return false
}

// Settle clears the Forgot marks of transactions that have no first-time check in flight any more.
func (r *Ref) Settle() {
	for t := range TxBytes {
		if r.Forgot[t] && !r.inFlight(t) {
			r.Forgot[t] = false
		}
	}
}

const (
	hintFresh      = iota // the real mempool created a new list entry for the transaction
	hintRemembered        // no new entry, the real cache holds the transaction
	hintForgotten         // no new entry, the real cache does not hold the transaction
)

// Deliver answers request i with verdict v and returns an outcome label. hint is consulted in one
// property-neutral corner only (see below and applyDeliver).
func (r *Ref) Deliver(i int, v Verdict, hint int) string {
	p := r.Q[i]
	r.Q = append(append([]RefPend(nil), r.Q[:i]...), r.Q[i+1:]...)
	t := p.T
	sz := int64(len(TxBytes[t]))
	if p.Unexpected {
		return "request-the-reference-had-refused"
	}
	if p.Recheck {
		k := r.inPool(t)
		if k < 0 {
			return "recheck-gone"
		}
		if v.Code == 0 {
			if r.C.Ver == 1 {
				r.Pool[k].Prio = v.Prio
			}
			return "recheck-ok"
		}
		r.removeAt(k)
		if !r.C.Keep {
			r.cacheRemove(t)
		}
		return "recheck-removed"
	}
	if v.Code != 0 {
		if !r.C.Keep {
			r.cacheRemove(t)
		}
		return "rejected"
	}
	// The reference follows the admission policy of the real code step by step, with one exception: at the
	// point of insertion a transaction that is (still) in the pool is not inserted a second time, because the
	// statement allows each transaction at most once.
	if r.C.Ver == 0 {
		if r.full(t) {
			r.cacheRemove(t)
			return "full-drop"
		}
		if r.inPool(t) >= 0 {
			return "already-in-pool"
		}
		r.Pool = append(r.Pool, RefTx{T: t, Gas: v.Gas, H: r.H})
		return "admitted"
	}
	if r.inPool(t) >= 0 && hint != hintFresh {
		// v1, the transaction is in the pool already and the real mempool created no second entry: it either
		// refused the repeat outright (what a mempool that checks its index before inserting does; it keeps
		// remembering the transaction) or ran its full-pool policy and dropped the repeat (forgetting it).
		// Both leave the pool as it is. When a new entry did appear the full-pool policy is followed below: the
		// repeat may evict its own older copy and take its place.
		if hint == hintForgotten {
			r.cacheRemove(t)
			return "repeat-dropped"
		}
		return "already-in-pool"
	}
	out := "admitted"
	if r.full(t) {
		var victims []int
		var vb int64
		for k, x := range r.Pool {
			if x.Prio < v.Prio {
				victims = append(victims, k)
				vb += int64(len(TxBytes[x.T]))
			}
		}
		if len(victims) == 0 || vb < sz {
			r.cacheRemove(t)
			return "full-drop"
		}
		sort.Slice(victims, func(a, b int) bool {
			x, y := r.Pool[victims[a]], r.Pool[victims[b]]
			if x.Prio == y.Prio {
				return victims[a] > victims[b] // newer first
			}
			return x.Prio < y.Prio
		})
		var ev int64
		var gone []int
		for _, k := range victims {
			gone = append(gone, r.Pool[k].T)
			ev += int64(len(TxBytes[r.Pool[k].T]))
			if ev >= sz {
				break
			}
		}
		for _, g := range gone {
			r.removeAt(r.inPool(g))
			r.cacheRemove(g)
		}
		out = fmt.Sprintf("admitted-evicting-%d", len(gone))
		if count(gone, t) > 0 {
			out += "-replacing-own-older-copy"
		}
	}
	if r.inPool(t) >= 0 {
		return "already-in-pool"
	}
	r.Pool = append(r.Pool, RefTx{T: t, Prio: v.Prio, Gas: v.Gas, H: p.H})
	return out
}

// Commit applies a block update and returns an outcome label.
func (r *Ref) Commit(block, codes []int) string {
	r.H++
	removed := 0
	for i, t := range block {
		if codes[i] == 0 {
			r.cachePush(t)
		} else if !r.C.Keep {
			r.cacheRemove(t)
		}
		if k := r.inPool(t); k >= 0 {
			r.removeAt(k)
			removed++
		}
	}
	for _, t := range block {
		r.Rem[t] = r.Cache.has(t)
	}
	expired := 0
	if r.C.Ver == 1 && r.C.TTL > 0 {
		for k := 0; k < len(r.Pool); {
			if r.H-r.Pool[k].H > r.C.TTL {
				r.cacheRemove(r.Pool[k].T)
				r.removeAt(k)
				expired++
				continue
			}
			k++
		}
	}
	if r.C.Recheck {
		for _, x := range r.Pool {
			r.Q = append(r.Q, RefPend{T: x.T, Recheck: true, H: r.H})
		}
	}
	return fmt.Sprintf("commit-%d-removed-%d-expired-%d-rechecks-%d", len(block), removed, expired, len(r.Q))
}

func (r *Ref) Flush() {
	r.Pool = nil
	r.Cache.l = nil
	r.Rem = [8]bool{}
}

func (r *Ref) Canon() string {
	var b strings.Builder
	fmt.Fprintf(&b, "R h=%d pool=", r.H)
	for _, x := range r.Pool {
		fmt.Fprintf(&b, "(%d p%d g%d h%d)", x.T, x.Prio, x.Gas, x.H)
	}
	fmt.Fprintf(&b, " cache=%v q=", r.Cache.l)
	for _, p := range r.Q {
		fmt.Fprintf(&b, "(%d %v h%d %v %v)", p.T, p.Recheck, p.H, p.DupRisk, p.Unexpected)
	}
	fmt.Fprintf(&b, " rem=%v forgot=%v", r.Rem[:len(TxBytes)], r.Forgot[:len(TxBytes)])
	return b.String()
}

// ------------------------------------------------------------------------------------------------
// adapter to the real mempools

// Pool is what both real mempools offer publicly.
type Pool interface {
	mempool.Mempool
	TxsFront() *clist.CElement
}

// Adapter is implemented by the internal tests of mempool/v0 and mempool/v1.
type Adapter interface {
	Ver() int
	// New builds a real mempool over conn. postHook (may be ignored by v0) must be called from the
	// post-check function, i.e. while the response handler runs.
	New(cfg *config.MempoolConfig, conn *Conn, height int64, postHook func()) Pool
	// ElemTx returns the transaction bytes held by a list element.
	ElemTx(e *clist.CElement) []byte
	// Canon is a canonical encoding of the complete behaviour-relevant internal state.
	Canon(p Pool) string
	// Cache returns the LRU content, least recently used first (nil for the no-op cache).
	Cache(p Pool) []int
	// Indexed reports whether the key index of the pool has an entry for tx.
	Indexed(p Pool, tx int) bool
}

// ------------------------------------------------------------------------------------------------
// one driven instance

type Viol struct {
	Key  string
	What string
}

func (v *Viol) Error() string { return v.Key }

type Inst struct {
	C     Cfg
	Ad    Adapter
	Pool  Pool
	Conn  *Conn
	Ref   *Ref
	H     int64
	Trace []string

	arrival [8]int // harness history: admission sequence number of a tx currently in the pool
	arrCtr  int
	prio    [8]int64
	gas     [8]int64

	hookCh chan struct{}
	baseG  int
	liveG  int // goroutines of the harness that sit in a synchronous CheckTx call (v1)

	Inconclusive string // a wait ran into its (generous) timeout: nothing is concluded from this execution
	Stacks       string
	Panic        string // the real code panicked in this execution (diagnostic)
	Diags        []string
	Outcome      string
	Dead         bool
}

const waitLimit = 60 * time.Second

func NewInst(ad Adapter, c Cfg) *Inst {
	in := &Inst{C: c, Ad: ad, Ref: NewRef(c), hookCh: make(chan struct{}, 64)}
	in.Conn = NewConn(ad.Ver() == 0)
	in.baseG = runtime.NumGoroutine()
	in.Pool = ad.New(c.MempoolConfig(), in.Conn, 0, func() {
		select {
		case in.hookCh <- struct{}{}:
		default:
		}
	})
	return in
}

func (in *Inst) inconclusive(what string) {
	in.Inconclusive = what
	buf := make([]byte, 1<<16)
	n := runtime.Stack(buf, true)
	in.Stacks = string(buf[:n])
}

func (in *Inst) diag(s string) {
	if len(in.Diags) < 8 {
		in.Diags = append(in.Diags, s)
	}
}

// Walk lists the pool through the public gossip list API (TxsFront/Next).
func (in *Inst) Walk() []int {
	w, _ := in.WalkElems()
	return w
}

// WalkElems also returns the list elements (their identity tells a fresh insertion from an old entry).
func (in *Inst) WalkElems() ([]int, []*clist.CElement) {
	var out []int
	var el []*clist.CElement
	for e := in.Pool.TxsFront(); e != nil && len(out) < 64; e = e.Next() {
		out = append(out, TxOf(in.Ad.ElemTx(e)))
		el = append(el, e)
	}
	return out, el
}

func guard(f func()) (p string) {
	defer func() {
		if r := recover(); r != nil {
			p = fmt.Sprint(r)
		}
	}()
	f()
	return ""
}

func (in *Inst) waitG() {
	// Goroutines the mempool has spawned itself (v1 recheck) end after their last response has been
	// handled; wait for them on a condition, never conclude anything from a timeout.
	if in.Ad.Ver() == 0 {
		return
	}
	dl := time.Now().Add(waitLimit)
	pause := 10 * time.Microsecond
	for i := 0; runtime.NumGoroutine() > in.baseG+in.liveG; i++ {
		runtime.Gosched()
		if i > 200 {
			// back off: the goroutines need CPU, not our polling
			time.Sleep(pause)
			if pause < 2*time.Millisecond {
				pause *= 2
			}
		}
		if i%64 == 63 && time.Now().After(dl) {
			in.inconclusive("goroutines of the mempool did not end")
			return
		}
	}
}

func (in *Inst) drainHook() {
	for {
		select {
		case <-in.hookCh:
		default:
			return
		}
	}
}

// doCheck calls the real CheckTx. For v1 the call blocks in CheckTxSync until the harness answers, so it
// runs on its own goroutine; the harness continues when the call has either returned or reached the
// connection.
func (in *Inst) doCheck(t, peer int) (issued bool, err error) {
	info := mempool.TxInfo{SenderID: uint16(peer)}
	before := in.Conn.Len()
	if in.Ad.Ver() == 0 {
		if p := guard(func() { err = in.Pool.CheckTx(TxBytes[t], nil, info) }); p != "" {
			in.Panic = "CheckTx: " + p
			return false, nil
		}
		issued = in.Conn.Len() > before
	} else {
		done := make(chan error, 1)
		go func() {
			var e error
			if p := guard(func() { e = in.Pool.CheckTx(TxBytes[t], nil, info) }); p != "" {
				e = fmt.Errorf("PANIC %s", p)
			}
			done <- e
		}()
		tm := time.NewTimer(waitLimit)
		defer tm.Stop()
		select {
		case err = <-done:
			if err != nil && strings.HasPrefix(err.Error(), "PANIC ") {
				in.Panic = "CheckTx: " + err.Error()
				return false, nil
			}
		case <-in.Conn.Arrived:
			issued = true
			in.liveG++
			q := in.Conn.Snapshot()
			q[len(q)-1].Done = done
		case <-tm.C:
			in.inconclusive("CheckTx neither returned nor reached the connection")
			return false, nil
		}
	}
	if issued {
		q := in.Conn.Snapshot()
		p := q[len(q)-1]
		p.H = in.H
	}
	return issued, err
}

func errClass(err error) string {
	switch err.(type) {
	case nil:
		return "issued"
	case mempool.ErrMempoolIsFull:
		return "full"
	}
	if err == mempool.ErrTxInCache {
		return "in-cache"
	}
	return "err:" + err.Error()
}

// doDeliver answers pending request i with verdict v and waits until the real code has finished handling it.
func (in *Inst) doDeliver(i int, v Verdict) (p *Pend) {
	p = in.Conn.Take(i)
	if !p.Sync {
		if pn := guard(func() { in.Conn.Answer(p, v) }); pn != "" {
			in.Panic = "response handler: " + pn
		}
		return p
	}
	// v1
	in.drainHook()
	expectHook := p.Recheck && in.Ad.Indexed(in.Pool, p.Tx)
	in.Conn.Answer(p, v)
	tm := time.NewTimer(waitLimit)
	defer tm.Stop()
	if !p.Recheck {
		select {
		case err := <-p.Done:
			in.liveG--
			if err != nil {
				if strings.HasPrefix(err.Error(), "PANIC ") {
					in.Panic = "addNewTransaction: " + err.Error()
				} else {
					in.diag("CheckTx returned " + err.Error() + " after the response")
				}
			}
		case <-tm.C:
			in.inconclusive("CheckTx did not return after its response")
		}
		return p
	}
	if expectHook {
		// handleRecheckResult calls the post-check hook while it holds the write lock; a lock/unlock pair
		// taken after the hook fired therefore returns only when the handler is finished.
		select {
		case <-in.hookCh:
			in.Pool.Lock()
			in.Pool.Unlock() //nolint
		case <-tm.C:
			in.inconclusive("recheck handler did not run")
		}
	}
	// When the tx is not indexed the handler returns without changing anything; nothing to wait for.
	last := true
	for _, q := range in.Conn.Snapshot() {
		if q.Recheck {
			last = false
		}
	}
	if last {
		in.waitG()
	}
	return p
}

// Close ends the goroutines that belong to this instance: every unanswered synchronous request is answered
// (rejected), and the goroutines the mempool spawned are awaited. Nothing is judged any more.
func (in *Inst) Close() {
	if in.Ad.Ver() == 0 {
		return
	}
	for in.Conn.Len() > 0 {
		p := in.Conn.Take(0)
		guard(func() { in.Conn.Answer(p, Verdicts[VReject]) })
		if p.Sync && !p.Recheck && p.Done != nil {
			tm := time.NewTimer(waitLimit)
			select {
			case <-p.Done:
				in.liveG--
			case <-tm.C:
			}
			tm.Stop()
		}
	}
	in.waitG()
}

// Apply executes one operation on the real mempool and on the reference, then evaluates the oracles.
// It returns a violation of the property statement, if any.
func (in *Inst) Apply(op Op) *Viol {
	in.Trace = append(in.Trace, op.String())
	in.Outcome = ""
	switch op.K {
	case "check", "submit":
		return in.applyCheck(op)
	case "deliver":
		return in.applyDeliver(op.Idx, Verdicts[op.V])
	case "commit":
		return in.applyCommit(op)
	case "flush":
		if p := guard(func() { in.Pool.Flush() }); p != "" {
			in.Panic = "Flush: " + p
			return nil
		}
		in.Ref.Flush()
		in.Outcome = "flush"
		return in.stepChecks("Flush", nil)
	}
	panic("c12kit: unknown op " + op.K)
}

func (in *Inst) applyCheck(op Op) *Viol {
	issued, err := in.doCheck(op.Tx, op.Peer)
	if in.Panic != "" || in.Inconclusive != "" {
		return nil
	}
	want := in.Ref.CheckTx(op.Tx)
	got := errClass(err)
	if issued != (err == nil) {
		in.diag(fmt.Sprintf("CheckTx(%s): issued=%v but err=%v", TxNames[op.Tx], issued, err))
	}
	if got != want {
		in.diag(fmt.Sprintf("CheckTx(%s): real %s, reference %s", TxNames[op.Tx], got, want))
	}
	in.Outcome = "check:" + got
	// keep the reference's queue aligned with the real connection even when the two disagree (the oracles then
	// judge what the real mempool does with the request)
	if issued && want != "issued" {
		in.Ref.Q = append(in.Ref.Q, RefPend{T: op.Tx, H: in.Ref.H, Unexpected: true})
	}
	if !issued && want == "issued" {
		in.Ref.Q = in.Ref.Q[:len(in.Ref.Q)-1]
	}
	if issued && want == "issued" {
		q := in.Conn.Snapshot()
		q[len(q)-1].DupRisk = in.Ref.Q[len(in.Ref.Q)-1].DupRisk
		if q[len(q)-1].DupRisk {
			in.Outcome += ":cache-forgot-live-tx"
		}
	}
	if v := in.stepChecks("CheckTx", nil); v != nil {
		return v
	}
	if op.K == "submit" && issued {
		o := in.Outcome
		v := in.applyDeliver(in.Conn.Len()-1, Verdicts[op.V])
		in.Outcome = o + "+" + in.Outcome
		return v
	}
	return nil
}

func (in *Inst) applyDeliver(i int, v Verdict) *Viol {
	_, beforeEl := in.WalkElems()
	p := in.doDeliver(i, v)
	in.Conn.Pump()
	if in.Panic != "" || in.Inconclusive != "" {
		return nil
	}
	if i >= len(in.Ref.Q) || in.Ref.Q[i].T != p.Tx || in.Ref.Q[i].Recheck != p.Recheck {
		in.diag("request queues of real connection and reference differ")
		in.Dead = true
		return nil
	}
	after, afterEl := in.WalkElems()
	// harness history: admission order and application-assigned attributes of pool members. A list element
	// that was not there before the response is a fresh admission of the answered transaction.
	freshEntry := false
	if !p.Recheck && v.Code == 0 {
		for k, e := range afterEl {
			fresh := after[k] == p.Tx
			for _, b := range beforeEl {
				if b == e {
					fresh = false
				}
			}
			if fresh {
				freshEntry = true
				in.arrCtr++
				in.arrival[p.Tx] = in.arrCtr
				in.prio[p.Tx] = v.Prio
				in.gas[p.Tx] = v.Gas
			}
		}
	}
	// Property-neutral corner (v1, an accepted repeat of a transaction that is still in the pool): a mempool may
	// refuse the repeat outright and keep remembering it, or run its full-pool policy (which may drop the repeat
	// and forget it, or let it evict its own older copy). The reference follows whichever the real mempool did,
	// told apart by whether a new list entry appeared and whether the real cache still holds the transaction.
	hint := hintFresh
	if !freshEntry {
		hint = hintForgotten
		if count(in.Ad.Cache(in.Pool), p.Tx) > 0 {
			hint = hintRemembered
		}
	}
	in.Outcome = "deliver:" + in.Ref.Deliver(i, v, hint)
	if p.Recheck && v.Code == 0 && in.C.Ver == 1 && count(after, p.Tx) > 0 {
		in.prio[p.Tx] = v.Prio
	}
	if viol := in.stepChecks("response", p); viol != nil {
		return viol
	}
	if p.Recheck && v.Code != 0 && count(after, p.Tx) > 0 {
		return &Viol{fmt.Sprintf("mempool/v%d:recheck:rejected-tx-remains", in.C.Ver),
			fmt.Sprintf("the application rejected %s at recheck but it is still in the pool %s", TxNames[p.Tx], names(after))}
	}
	return nil
}

func (in *Inst) applyCommit(op Op) *Viol {
	if in.Conn.Len() != 0 {
		panic("c12kit: commit with unanswered requests (not enabled)")
	}
	txs := make(types.Txs, len(op.Block))
	resps := make([]*abci.ResponseDeliverTx, len(op.Block))
	for i, t := range op.Block {
		txs[i] = TxBytes[t]
		resps[i] = &abci.ResponseDeliverTx{Code: uint32(op.Codes[i])}
	}
	// the sequence BlockExecutor.Commit performs (the application's Commit lies between flush and update)
	pn := guard(func() {
		in.Pool.Lock()
		defer in.Pool.Unlock()
		if err := in.Pool.FlushAppConn(); err != nil {
			panic(err)
		}
		if err := in.Pool.Update(in.H+1, txs, resps, nil, nil); err != nil {
			panic(err)
		}
	})
	if pn != "" {
		in.Panic = "Update: " + pn
		return nil
	}
	in.H++
	if in.Ad.Ver() == 1 && in.C.Recheck {
		// v1 issues the recheck requests from goroutines; wait until all of them have reached the connection
		n := in.Pool.Size()
		tm := time.NewTimer(waitLimit)
		first := time.NewTimer(10 * time.Second) // not one request within 10 s: no recheck round was started (judged below)
	WAIT:
		for k := 0; k < n; k++ {
			select {
			case <-in.Conn.Arrived:
				if k == 0 {
					first.Stop()
					first = time.NewTimer(waitLimit)
				}
			case <-first.C:
				if k == 0 {
					break WAIT
				}
				in.inconclusive("recheck requests did not reach the connection")
				tm.Stop()
				return nil
			case <-tm.C:
				in.inconclusive("recheck requests did not reach the connection")
				tm.Stop()
				first.Stop()
				return nil
			}
		}
		tm.Stop()
		first.Stop()
		w := in.Walk()
		in.Conn.SortRechecks(func(tx int) int {
			for i, x := range w {
				if x == tx {
					return i
				}
			}
			return 99
		})
		if n == 0 {
			in.waitG()
		}
	}
	for _, p := range in.Conn.Snapshot() {
		p.H = in.H
	}
	in.Outcome = in.Ref.Commit(op.Block, op.Codes)
	after := in.Walk()
	for _, t := range op.Block {
		if count(after, t) > 0 {
			return &Viol{fmt.Sprintf("mempool/v%d:Update:committed-tx-still-in-pool", in.C.Ver),
				fmt.Sprintf("%s was committed in the block of height %d but is still in the pool %s", TxNames[t], in.H, names(after))}
		}
	}
	if viol := in.stepChecks("Update", nil); viol != nil {
		return viol
	}
	if in.C.Recheck {
		var asked []int
		for _, p := range in.Conn.Snapshot() {
			if p.Recheck {
				asked = append(asked, p.Tx)
			}
		}
		a, b := append([]int(nil), asked...), append([]int(nil), after...)
		sort.Ints(a)
		sort.Ints(b)
		if fmt.Sprint(a) != fmt.Sprint(b) {
			for _, t := range after {
				if count(asked, t) == 0 {
					return &Viol{fmt.Sprintf("mempool/v%d:Update:remaining-tx-not-rechecked", in.C.Ver),
						fmt.Sprintf("after the update the pool is %s but recheck requests were issued for %s only: %s stays without the application being asked",
							names(after), names(asked), TxNames[t])}
				}
			}
			in.diag(fmt.Sprintf("recheck requests %s for pool %s", names(asked), names(after)))
		}
	}
	return nil
}

func count(l []int, t int) int {
	n := 0
	for _, x := range l {
		if x == t {
			n++
		}
	}
	return n
}

func names(l []int) string {
	s := make([]string, len(l))
	for i, t := range l {
		if t >= 0 {
			s[i] = TxNames[t]
		} else {
			s[i] = "?"
		}
	}
	return "[" + strings.Join(s, " ") + "]"
}

func sumBytes(l []int) int64 {
	var n int64
	for _, t := range l {
		n += int64(len(TxBytes[t]))
	}
	return n
}

// stepChecks evaluates, after every operation, the clauses of the statement that speak about "every moment":
// each transaction at most once; count and bytes within the limits; a committed transaction is not in the
// pool while the cache has remembered it since. Everything else that differs from the reference is recorded
// as a diagnostic only.
func (in *Inst) stepChecks(site string, p *Pend) *Viol {
	w := in.Walk()
	ver := in.C.Ver
	for _, t := range w {
		if count(w, t) > 1 {
			handler := "resCbFirstTime"
			if ver == 1 {
				handler = "addNewTransaction"
			}
			if p != nil && !p.Recheck && p.Tx == t && in.Ref.Forgot[t] {
				return &Viol{fmt.Sprintf("mempool/v%d:%s:duplicate-entry-cache-forgot-live-tx", ver, handler),
					fmt.Sprintf("%s is in the pool twice %s (Size()=%d SizeBytes()=%d): it was already in the pool or in flight when CheckTx was called again, the cache (size %d) no longer held it, and the accepted response inserted it a second time",
						TxNames[t], names(w), in.Pool.Size(), in.Pool.SizeBytes(), in.C.CacheSize)}
			}
			return &Viol{fmt.Sprintf("mempool/v%d:%s:duplicate-entry-unexpected", ver, site),
				fmt.Sprintf("%s is in the pool more than once %s after %s", TxNames[t], names(w), site)}
		}
	}
	if len(w) > in.C.Size || in.Pool.Size() > in.C.Size {
		return &Viol{fmt.Sprintf("mempool/v%d:%s:count-exceeds-size-limit", ver, site),
			fmt.Sprintf("pool %s, Size()=%d, configured Size=%d", names(w), in.Pool.Size(), in.C.Size)}
	}
	if sumBytes(w) > in.C.MaxBytes || in.Pool.SizeBytes() > in.C.MaxBytes {
		return &Viol{fmt.Sprintf("mempool/v%d:%s:bytes-exceed-max-txs-bytes", ver, site),
			fmt.Sprintf("pool %s holds %d bytes, SizeBytes()=%d, configured MaxTxsBytes=%d", names(w), sumBytes(w), in.Pool.SizeBytes(), in.C.MaxBytes)}
	}
	for _, t := range w {
		if in.Ref.Rem[t] {
			return &Viol{fmt.Sprintf("mempool/v%d:%s:committed-tx-readmitted-while-cached", ver, site),
				fmt.Sprintf("%s was committed and the cache (size %d, reference content %v) has remembered it ever since, yet it is in the pool again %s",
					TxNames[t], in.C.CacheSize, in.Ref.Cache.l, names(w))}
		}
	}
	in.Ref.Settle()
	// diagnostics: exact agreement with the reference
	var rp []int
	for _, x := range in.Ref.Pool {
		rp = append(rp, x.T)
	}
	if fmt.Sprint(rp) != fmt.Sprint(w) {
		in.diag(fmt.Sprintf("pool: real %s reference %s after %s", names(w), names(rp), site))
	}
	if in.Pool.Size() != len(w) || in.Pool.SizeBytes() != sumBytes(w) {
		in.diag(fmt.Sprintf("accounting: Size()=%d SizeBytes()=%d for pool %s", in.Pool.Size(), in.Pool.SizeBytes(), names(w)))
	}
	rc := in.Ad.Cache(in.Pool)
	if fmt.Sprint(rc) != fmt.Sprint(in.Ref.Cache.l) && !(len(rc) == 0 && len(in.Ref.Cache.l) == 0) {
		in.diag(fmt.Sprintf("cache: real %v reference %v after %s", rc, in.Ref.Cache.l, site))
	}
	q := in.Conn.Snapshot()
	same := len(q) == len(in.Ref.Q)
	for i := 0; same && i < len(q); i++ {
		same = q[i].Tx == in.Ref.Q[i].T && q[i].Recheck == in.Ref.Q[i].Recheck
	}
	if !same {
		in.diag("in-flight requests of real connection and reference differ after " + site)
	}
	return nil
}

// Expected returns the pool in its defined order: arrival order (v0), or priority (higher first) then
// arrival order (v1). Membership comes from the real pool, arrival order and priorities from the harness's
// own record of admissions and application verdicts.
func (in *Inst) Expected() []int {
	w := in.Walk()
	e := append([]int(nil), w...)
	sort.SliceStable(e, func(i, j int) bool {
		a, b := e[i], e[j]
		if in.C.Ver == 1 && in.prio[a] != in.prio[b] {
			return in.prio[a] > in.prio[b]
		}
		return in.arrival[a] < in.arrival[b]
	})
	return e
}

// ReapQ is one reap query.
type ReapQ struct {
	MaxTxs   *int   `json:"max_txs,omitempty"`
	MaxBytes *int64 `json:"max_bytes,omitempty"`
	MaxGas   *int64 `json:"max_gas,omitempty"`
}

func (q ReapQ) String() string {
	if q.MaxTxs != nil {
		return fmt.Sprintf("ReapMaxTxs(%d)", *q.MaxTxs)
	}
	return fmt.Sprintf("ReapMaxBytesMaxGas(%d,%d)", *q.MaxBytes, *q.MaxGas)
}

func protoSize(l []int) int64 {
	txs := make([]types.Tx, len(l))
	for i, t := range l {
		txs[i] = TxBytes[t]
	}
	return types.ComputeProtoSizeForTxs(txs)
}

// Queries returns the boundary reap queries for the current pool.
func (in *Inst) Queries() []ReapQ {
	e := in.Expected()
	var qs []ReapQ
	seenN := map[int]bool{}
	for _, n := range []int{-1, 0, 1, len(e) - 1, len(e), len(e) + 1} {
		if n < -1 || seenN[n] {
			continue
		}
		seenN[n] = true
		n := n
		qs = append(qs, ReapQ{MaxTxs: &n})
	}
	// byte and gas limits: every boundary (cumulative size of each prefix, and one below) for each limit alone,
	// and the exact prefix boundaries of both limits combined
	bs := []int64{-1, 0}
	gs := []int64{-1, 0}
	var be, ge []int64
	var g int64
	for k := 1; k <= len(e); k++ {
		b := protoSize(e[:k])
		bs = append(bs, b-1, b)
		be = append(be, b)
		g += in.gas[e[k-1]]
		gs = append(gs, g-1, g)
		ge = append(ge, g)
	}
	seen := map[[2]int64]bool{}
	add := func(b, g int64) {
		if b < -1 || g < -1 || seen[[2]int64{b, g}] {
			return
		}
		seen[[2]int64{b, g}] = true
		qs = append(qs, ReapQ{MaxBytes: &b, MaxGas: &g})
	}
	for _, b := range bs {
		add(b, -1)
	}
	for _, g := range gs {
		add(-1, g)
	}
	add(0, 0)
	for _, b := range be {
		for _, g := range ge {
			add(b, g)
		}
	}
	return qs
}

// Reap runs one reap query against the real pool and judges the result: it must be a prefix of the pool in
// its defined order and respect the limits given. Returning fewer transactions than the limits allow is
// reported as a diagnostic only (the statement does not demand maximality).
func (in *Inst) Reap(q ReapQ) *Viol {
	e := in.Expected()
	var got types.Txs
	fn := "ReapMaxTxs"
	if q.MaxTxs == nil {
		fn = "ReapMaxBytesMaxGas"
	}
	if p := guard(func() {
		if q.MaxTxs != nil {
			got = in.Pool.ReapMaxTxs(*q.MaxTxs)
		} else {
			got = in.Pool.ReapMaxBytesMaxGas(*q.MaxBytes, *q.MaxGas)
		}
	}); p != "" {
		in.Panic = fn + ": " + p
		return nil
	}
	r := make([]int, len(got))
	for i, tx := range got {
		r[i] = TxOf(tx)
	}
	ver := in.C.Ver
	pre := len(r) <= len(e)
	for i := 0; pre && i < len(r); i++ {
		pre = r[i] == e[i]
	}
	if q.MaxTxs != nil {
		if *q.MaxTxs >= 0 && len(r) > *q.MaxTxs {
			return &Viol{fmt.Sprintf("mempool/v%d:ReapMaxTxs:returns-more-than-max", ver),
				fmt.Sprintf("%s returned %d transactions %s from the pool %s", q, len(r), names(r), names(e))}
		}
	} else {
		if *q.MaxBytes >= 0 && protoSize(r) > *q.MaxBytes {
			return &Viol{fmt.Sprintf("mempool/v%d:ReapMaxBytesMaxGas:exceeds-max-bytes", ver),
				fmt.Sprintf("%s returned %s with encoded size %d from the pool %s", q, names(r), protoSize(r), names(e))}
		}
		var g int64
		for _, t := range r {
			g += in.gas[t]
		}
		if *q.MaxGas >= 0 && g > *q.MaxGas {
			return &Viol{fmt.Sprintf("mempool/v%d:ReapMaxBytesMaxGas:exceeds-max-gas", ver),
				fmt.Sprintf("%s returned %s wanting gas %d from the pool %s", q, names(r), g, names(e))}
		}
	}
	if !pre {
		return &Viol{fmt.Sprintf("mempool/v%d:%s:not-a-prefix-in-defined-order", ver, fn),
			fmt.Sprintf("%s returned %s, which is not a prefix of the pool in its defined order %s", q, names(r), names(e))}
	}
	// diagnostic: maximality
	want := 0
	var b, g int64
	for k := 1; k <= len(e); k++ {
		if q.MaxTxs != nil {
			if *q.MaxTxs >= 0 && k > *q.MaxTxs {
				break
			}
		} else {
			b = protoSize(e[:k])
			g += in.gas[e[k-1]]
			if (*q.MaxBytes >= 0 && b > *q.MaxBytes) || (*q.MaxGas >= 0 && g > *q.MaxGas) {
				break
			}
		}
		want = k
	}
	if len(r) < want {
		in.diag(fmt.Sprintf("%s returned %s, the longest admissible prefix of %s has %d", q, names(r), names(e), want))
	}
	return nil
}

// Canon is the canonical encoding the search merges states on: the complete internal state of the real
// mempool as encoded by the adapter, the unanswered requests, the reference model, and the harness's record
// of admission order / priorities / gas for the transactions currently in the pool.
//
// Two paths with the same encoding have the same futures: every field a mempool method reads is in the
// adapter's encoding (transactions and their application attributes in list order, the key index including
// entries that point outside the list, the byte counter, the height, the recheck cursor, the LRU order), the
// answer the connection gives is chosen by the harness from the queue alone, and the oracles read only what
// is encoded here. Dropped on purpose: sender/peer sets and the per-entry height of v0 (read by the gossip
// reactor only), notifiedTxsAvailable (guards a channel send only), absolute timestamps of v1 (only their
// order is read, and that is the list order).
func (in *Inst) Canon() string {
	var b strings.Builder
	b.WriteString(in.Ad.Canon(in.Pool))
	b.WriteString(" Q=")
	for _, p := range in.Conn.Snapshot() {
		fmt.Fprintf(&b, "(%d %v %v h%d %v)", p.Tx, p.Recheck, p.Flush, p.H, p.DupRisk)
	}
	b.WriteString(" ")
	b.WriteString(in.Ref.Canon())
	b.WriteString(" hist=")
	for _, t := range in.Expected() {
		fmt.Fprintf(&b, "(%d p%d g%d)", t, in.prio[t], in.gas[t])
	}
	return b.String()
}

// ------------------------------------------------------------------------------------------------
// cases, replay

// Case is a replayable execution: configuration, operation path and, optionally, the reap query that failed
// in the final state.
type Case struct {
	Cfg   Cfg    `json:"cfg"`
	Path  []Op   `json:"path"`
	Query *ReapQ `json:"query,omitempty"`
	Trace string `json:"trace,omitempty"`
}

// RunCase executes a case on a fresh real mempool with all oracles and returns the first violation.
func RunCase(ad Adapter, c Case) (*Viol, *Inst) {
	in := NewInst(ad, c.Cfg)
	defer in.Close()
	for _, op := range c.Path {
		if v := in.Apply(op); v != nil {
			return v, in
		}
		if in.Panic != "" || in.Inconclusive != "" || in.Dead {
			return nil, in
		}
	}
	if c.Query != nil {
		return in.Reap(*c.Query), in
	}
	for _, q := range in.Queries() {
		if v := in.Reap(q); v != nil {
			return v, in
		}
	}
	return nil, in
}

// ------------------------------------------------------------------------------------------------
// search

type node struct {
	path []uint16 // indices into the operation table
	q    []uint8  // kinds of the unanswered requests: 0 first-time, 1 recheck
	h    [32]byte // hash of the canonical state
}

var (
	opTable []Op
	opIdx   = map[string]uint16{}
)

func opID(o Op) uint16 {
	k := o.String()
	if i, ok := opIdx[k]; ok {
		return i
	}
	opTable = append(opTable, o)
	opIdx[k] = uint16(len(opTable) - 1)
	return uint16(len(opTable) - 1)
}

func pathOps(p []uint16) []Op {
	out := make([]Op, len(p))
	for i, k := range p {
		out[i] = opTable[k]
	}
	return out
}

func enabled(ver int, b Bounds, n *node, commits []Op) []Op {
	var ops []Op
	newInFlight := 0
	for _, k := range n.q {
		if k == 0 {
			newInFlight++
		}
	}
	// answers first: they are the ones that complete pending behaviour
	for i, k := range n.q {
		if i > 0 && (ver == 0 || k == 1) {
			// v0: responses are handled in connection order. v1: a first-time CheckTx completes in its own
			// goroutine after its synchronous call, so any pending first-time request may complete next;
			// rechecks are handled by key and commute among themselves, the oldest one stands for them.
			continue
		}
		menu := newMenu(ver)
		if k == 1 {
			menu = recheckMenu(ver)
		}
		for _, v := range menu {
			ops = append(ops, Op{K: "deliver", Idx: i, V: v})
		}
	}
	if newInFlight < b.MaxFlight {
		for t := 0; t < b.NTx; t++ {
			for _, p := range b.Peers {
				ops = append(ops, Op{K: "check", Tx: t, Peer: p})
			}
		}
	}
	if len(n.q) == 0 {
		if b.Submit {
			for t := 0; t < b.NTx; t++ {
				for _, v := range newMenu(ver) {
					ops = append(ops, Op{K: "submit", Tx: t, Peer: b.Peers[0], V: v})
				}
			}
		}
		ops = append(ops, commits...)
	}
	ops = append(ops, Op{K: "flush"})
	return ops
}

// search is the breadth-first search of one configuration; levels are driven from outside so that all
// configurations of a shard advance together (the depth completed is the same for all of them).
type search struct {
	r         *vr.Report
	ad        Adapter
	c         Cfg
	b         Bounds
	commits   []Op
	visited   map[[32]byte]struct{}
	frontier  []*node
	confirmed map[string]bool
	reported  map[string]bool
	States    int64
	Trans     int64
	Closed    bool // the frontier ran empty: the reachable space is closed
}

func newSearch(r *vr.Report, ad Adapter, c Cfg, b Bounds) *search {
	s := &search{r: r, ad: ad, c: c, b: b, commits: commitOps(b), visited: map[[32]byte]struct{}{}, confirmed: map[string]bool{}, reported: map[string]bool{}}
	root := NewInst(ad, c)
	h := sha256.Sum256([]byte(root.Canon()))
	s.visited[h] = struct{}{}
	s.States = 1
	r.States++
	s.observe(root, nil)
	s.frontier = []*node{{h: h}}
	return s
}

func (s *search) report(v *Viol, cs Case, in *Inst) {
	r := s.r
	if !s.confirmed[v.Key] {
		ok := vr.Confirm(3, v, func() error {
			v2, _ := RunCase(s.ad, cs)
			if v2 == nil {
				return nil
			}
			return v2
		})
		if !ok {
			r.Cap("a violation did not reproduce identically in 3 re-runs (treated as inconclusive): " + v.Key)
			r.Note("unstable: " + v.Key + " on " + strings.Join(in.Trace, " ; "))
			return
		}
		s.confirmed[v.Key] = true
	}
	if s.reported[v.Key] {
		r.Violation(v.Key, "", nil) // counts; text and replay of the first occurrence are kept
		return
	}
	s.reported[v.Key] = true
	cs.Trace = strings.Join(in.Trace, " ; ")
	r.Violation(v.Key, fmt.Sprintf("[%s] %s ; after: %s", s.c, v.What, cs.Trace), cs)
}

// rebuild replays an accepted path on a fresh real mempool.
func (s *search) rebuild(n *node) *Inst {
	r := s.r
	in := NewInst(s.ad, s.c)
	r.Traces++
	for _, k := range n.path {
		if v := in.Apply(opTable[k]); v != nil || in.Panic != "" || in.Inconclusive != "" || in.Dead {
			if in.Inconclusive != "" {
				r.Cap("inconclusive execution: " + in.Inconclusive)
				r.Note("inconclusive: " + in.Inconclusive + " [" + s.c.String() + "] after: " + strings.Join(in.Trace, " ; ") + " STACKS " + in.Stacks)
			} else {
				r.Note("replay of an accepted path diverged: " + strings.Join(in.Trace, " ; "))
				r.Cap("replay divergence (harness nondeterminism), path dropped")
			}
			in.Close()
			return nil
		}
	}
	return in
}

// level expands the whole frontier by one operation. It returns false when the time budget ran out.
func (s *search) level(deadline func() bool) bool {
	r, c := s.r, s.c
	var next []*node
	for _, n := range s.frontier {
		// live: an instance that is in the state of n (rebuilt, or kept from a sibling operation that turned
		// out to be a self-loop; by the merging argument both are interchangeable).
		var live *Inst
		for _, op := range enabled(s.ad.Ver(), s.b, n, s.commits) {
			if deadline() {
				if live != nil {
					live.Close()
				}
				return false
			}
			in := live
			live = nil
			if in == nil {
				if in = s.rebuild(n); in == nil {
					continue
				}
			}
			traceLen := len(in.Trace)
			in.Diags = nil
			viol := in.Apply(op)
			s.Trans++
			r.Transitions++
			r.Eval()
			path := append(append([]uint16(nil), n.path...), opID(op))
			for _, d := range in.Diags {
				r.Add("diag_reference_divergence", 1)
				r.Note("diag: [" + c.String() + "] " + d + " ; after: " + strings.Join(in.Trace, " ; "))
			}
			switch {
			case viol != nil:
				s.report(viol, Case{Cfg: c, Path: pathOps(path)}, in)
				r.Outcome("VIOLATION " + viol.Key)
			case in.Inconclusive != "":
				r.Cap("inconclusive execution: " + in.Inconclusive)
				r.Note("inconclusive: " + in.Inconclusive + " [" + c.String() + "] after: " + strings.Join(in.Trace, " ; ") + " STACKS " + in.Stacks)
			case in.Panic != "":
				r.Add("diag_panic", 1)
				r.Outcome("panic: " + firstLine(in.Panic))
				r.Note("diag: panic in real code [" + c.String() + "] " + firstLine(in.Panic) + " ; after: " + strings.Join(in.Trace, " ; "))
			case in.Dead:
			default:
				r.Outcome(in.Outcome)
				h := sha256.Sum256([]byte(in.Canon()))
				if h == n.h && len(in.Diags) == 0 {
					// self-loop: the instance is still in the state of n, use it for the next sibling
					in.Trace = in.Trace[:traceLen]
					live = in
					continue
				}
				if _, seen := s.visited[h]; !seen {
					s.visited[h] = struct{}{}
					s.States++
					r.States++
					if len(path) > r.MaxDepth {
						r.MaxDepth = len(path)
					}
					s.observe(in, path)
					nn := &node{path: path, h: h}
					for _, p := range in.Conn.Snapshot() {
						k := uint8(0)
						if p.Recheck {
							k = 1
						}
						nn.q = append(nn.q, k)
					}
					next = append(next, nn)
					if s.States%2048 == 2 {
						r.Sample(Case{Cfg: c, Path: pathOps(path), Trace: strings.Join(in.Trace, " ; ")})
					}
				}
			}
			in.Close()
		}
		if live != nil {
			live.Close()
		}
	}
	s.frontier = next
	if len(next) == 0 {
		s.Closed = true
	}
	return true
}

func firstLine(s string) string {
	if i := strings.IndexByte(s, '\n'); i >= 0 {
		s = s[:i]
	}
	if len(s) > 120 {
		s = s[:120]
	}
	return s
}

// observe runs the reap queries (self-loop transitions) in a newly found state and classifies the state for
// the vacuity counters.
func (s *search) observe(in *Inst, path16 []uint16) {
	r, ad, c := s.r, s.ad, s.c
	path := pathOps(path16)
	before := in.Canon()
	w := in.Walk()
	for _, q := range in.Queries() {
		q := q
		in.Diags = nil
		v := in.Reap(q)
		s.Trans++
		r.Transitions++
		for _, d := range in.Diags {
			r.Add("diag_reap_not_maximal", 1)
			r.Note("diag: [" + c.String() + "] " + d)
		}
		if v != nil {
			cs := Case{Cfg: c, Path: path, Query: &q}
			if !s.reported[v.Key] {
				cs.Trace = strings.Join(in.Trace, " ; ") + " ; " + q.String()
			}
			// reaps are deterministic reads; the first occurrence of a key in this search is confirmed by re-running
			// the whole case
			stable := true
			if !s.confirmed[v.Key] {
				stable = vr.Confirm(2, v, func() error {
					v2, _ := RunCase(ad, cs)
					if v2 == nil {
						return nil
					}
					return v2
				})
				s.confirmed[v.Key] = stable
			}
			switch {
			case !stable:
				r.Cap("a reap violation did not reproduce (treated as inconclusive): " + v.Key)
			case s.reported[v.Key]:
				r.Violation(v.Key, "", nil) // counts; text and replay of the first occurrence are kept
			default:
				s.reported[v.Key] = true
				r.Violation(v.Key, fmt.Sprintf("[%s] %s ; after: %s", c, v.What, cs.Trace), cs)
			}
			r.Outcome("VIOLATION " + v.Key)
		}
		if in.Panic != "" {
			r.Add("diag_panic", 1)
			r.Note("diag: panic in real code: " + firstLine(in.Panic))
			in.Panic = ""
		}
	}
	if after := in.Canon(); after != before {
		r.Add("diag_reap_changes_state", 1)
		r.Note("diag: reaping changed the state: " + before + " -> " + after)
	}
	// vacuity classes
	live := false
	for _, t := range w {
		if !in.Ref.Cache.has(t) {
			live = true
		}
	}
	if live {
		r.Add("states_cache_forgot_live_tx", 1)
		r.NTCount(1)
	}
	if len(w) == c.Size {
		r.Add("states_at_count_limit", 1)
	}
	if sumBytes(w) == c.MaxBytes {
		r.Add("states_at_byte_limit", 1)
	}
	for t := range TxBytes {
		if in.Ref.Rem[t] {
			r.Add("states_with_committed_tx_remembered", 1)
			break
		}
	}
	if len(in.Conn.Snapshot()) > 0 {
		r.Add("states_with_requests_in_flight", 1)
	}
}

// RunSeq is the body of the sequential parts: all configurations of one mempool version, sharded by
// configuration, breadth-first search to the tier's depth in each.
// Phase is one search of a tier: bounds, and the share of the part's time budget it may use.
type Phase struct {
	B     Bounds
	Share float64
}

func RunSeq(ad Adapter, part string, quickBudget, thoroughBudget time.Duration, quick, thorough []Phase) {
	r := vr.Start("C12", part, quickBudget, thoroughBudget)
	defer r.Finish()
	phases, budget := quick, quickBudget
	if vr.Thorough() {
		phases, budget = thorough, thoroughBudget
	}
	if s := os.Getenv("VERIF_BUDGET_S"); s != "" {
		if v, err := strconv.Atoi(s); err == nil {
			budget = time.Duration(v) * time.Second
		}
	}
	start := time.Now()
	r.Rule = "explicit-state breadth-first search over operation sequences of the real mempool; a state is the operation path, merged on the canonical encoding of the mempool's internal state + unanswered requests + reference model; non-trivial = states in which a transaction is in the pool while the cache has forgotten it"
	r.Assume("the application connection is the harness's: responses are delivered in request order (v0) / first-time checks complete in any order (v1), with every verdict from the menu")
	r.Assume("Commit+Update is called as BlockExecutor.Commit does (Lock, FlushAppConn, Update, Unlock) and only when no request is unanswered, which is what FlushAppConn establishes")
	r.Assume("v1 orders equal priorities by wall-clock arrival time; operations are sequential, so arrival order is response order")
	var rc Case
	if replaying, skip := r.ReplayCase(&rc); skip {
		return
	} else if replaying {
		r.Eval()
		r.Traces++
		v, in := RunCase(ad, rc)
		if v != nil {
			r.Violation(v.Key, fmt.Sprintf("[%s] %s ; after: %s", rc.Cfg, v.What, strings.Join(in.Trace, " ; ")), rc)
		}
		if in.Panic != "" {
			r.Note("panic in real code: " + in.Panic)
		}
		for _, d := range in.Diags {
			r.Note("diag: " + d)
		}
		return
	}
	cfgs := Configs(ad.Ver())
	if r.Seed != 0 {
		k := int(r.Seed % int64(len(cfgs)))
		if k < 0 {
			k = -k
		}
		cfgs = append(append([]Cfg(nil), cfgs[k:]...), cfgs[:k]...)
	}
	var bounds []string
	used := 0.0
	for pi, ph := range phases {
		b := ph.B
		used += ph.Share
		phaseEnd := start.Add(time.Duration(float64(budget) * used))
		var searches []*search
		for k, c := range cfgs {
			if r.Mine(k) {
				searches = append(searches, newSearch(r, ad, c, b))
			}
		}
		completed := 0
		for depth := 0; depth < b.Depth; depth++ {
			ok := true
			open := 0
			what := fmt.Sprintf("breadth-first search, phase %d, level %d", pi+1, depth+1)
			for _, s := range searches {
				if s.Closed {
					continue
				}
				ok = s.level(func() bool {
					if time.Now().After(phaseEnd) {
						r.Cap("time budget reached: " + what)
						return true
					}
					return r.Deadline(what)
				})
				if !ok {
					break
				}
				if !s.Closed {
					open++
				}
			}
			if !ok {
				break
			}
			completed = depth + 1
			if open == 0 {
				completed = b.Depth // every reachable state of every configuration has been expanded
				break
			}
		}
		closed := 0
		var smin, smax int64 = 1 << 60, 0
		for _, s := range searches {
			if s.Closed {
				closed++
			}
			if s.States < smin {
				smin = s.States
			}
			if s.States > smax {
				smax = s.States
			}
			if pi == 0 {
				r.Add("configurations", 1)
			}
		}
		if len(searches) > 0 {
			r.Set(fmt.Sprintf("phase%d_states_per_configuration_shard%d", pi+1, r.Shard), fmt.Sprintf("min %d max %d", smin, smax))
		}
		r.Set(fmt.Sprintf("phase%d_depth_completed_shard%d", pi+1, r.Shard), fmt.Sprintf("%d of %d", completed, b.Depth))
		r.Add(fmt.Sprintf("phase%d_configurations_closed", pi+1), int64(closed))
		bj, _ := json.Marshal(b)
		bounds = append(bounds, fmt.Sprintf("phase %d: all operation sequences up to depth %d in every configuration of this shard (bounds %s)", pi+1, completed, bj))
	}
	r.Bound = strings.Join(bounds, " ; ")
}

// ------------------------------------------------------------------------------------------------
// concurrent layer: real goroutines under the cooperative scheduler (internal/verif/gosched)

// ConcAdapter additionally puts the mempool's own lock under the scheduler (requires the import rewrite of
// libs/sync/sync.go resp. mempool/v1/mempool.go, see checks/C12.json).
type ConcAdapter interface {
	Adapter
	Manage(p Pool, s *gosched.Sched)
}

// ThreadOp is one call a scenario thread makes.
type ThreadOp struct {
	K  string `json:"k"` // check | reap | reaptxs | flush
	Tx int    `json:"tx,omitempty"`
}

// Scenario: a sequential prefix, the committing thread (what BlockExecutor.Commit does), other threads, and the
// behaviour of the application connection.
type Scenario struct {
	Name    string       `json:"name"`
	Cfg     Cfg          `json:"cfg"`
	Mode    string       `json:"mode"` // socket: responses are handled by the client's receive goroutine; local: in the caller
	Pre     []Op         `json:"pre,omitempty"`
	Block   []int        `json:"block"`
	Codes   []int        `json:"codes"`
	Threads [][]ThreadOp `json:"threads"`
}

// ConcCase is a replayable execution of the concurrent layer.
type ConcCase struct {
	Scn     Scenario `json:"scenario"`
	Choices []int    `json:"choices"`
	Trace   string   `json:"trace,omitempty"`
}

type concRun struct {
	scn        Scenario
	in         *Inst
	s          *gosched.Sched
	journal    []string
	updateDone bool
	committed  bool // the application has committed the block
	viol       *Viol
	reaps      [][]int
	othersLeft int
}

func (cr *concRun) log(s string) { cr.journal = append(cr.journal, s) }

// buildConc constructs a fresh scenario instance: real mempool, sequential prefix, then the threads.
func buildConc(ad ConcAdapter, scn Scenario, checkG bool) (*gosched.Sched, *concRun) {
	cr := &concRun{scn: scn}
	in := NewInst(ad, scn.Cfg)
	cr.in = in
	for _, op := range scn.Pre {
		if v := in.Apply(op); v != nil || in.Panic != "" || in.Inconclusive != "" || in.Conn.Len() != 0 {
			panic(fmt.Sprintf("c12kit: scenario prefix of %s is not clean: %v %s %s", scn.Name, v, in.Panic, in.Inconclusive))
		}
	}
	s := gosched.New()
	s.CheckGoroutine = checkG
	cr.s = s
	ad.Manage(in.Pool, s)
	conn := in.Conn
	conn.Conc = cr
	pool := in.Pool
	h := in.H
	// T0: the real BlockExecutor.Commit (Lock, FlushAppConn, application Commit, Update, Unlock) over the real
	// mempool and a consensus connection whose Commit call is two scheduling points (request, response).
	blockExec := sm.NewBlockExecutor(nil, log.NewNopLogger(), &consensusConn{cr: cr}, pool, sm.EmptyEvidencePool{})
	state := sm.State{ConsensusParams: *types.DefaultConsensusParams(), Validators: concValSet}
	txs := make(types.Txs, len(scn.Block))
	resps := make([]*abci.ResponseDeliverTx, len(scn.Block))
	for i, t := range scn.Block {
		txs[i] = TxBytes[t]
		resps[i] = &abci.ResponseDeliverTx{Code: uint32(scn.Codes[i])}
	}
	block := &types.Block{Header: types.Header{Height: h + 1}, Data: types.Data{Txs: txs}}
	s.Go("commit", func() {
		if _, _, err := blockExec.Commit(state, block, resps); err != nil {
			panic(err)
		}
		cr.log("Update returned")
		cr.updateDone = true
	})
	cr.othersLeft = 1 + len(scn.Threads)
	for k, ops := range scn.Threads {
		k, ops := k, ops
		s.Go(fmt.Sprintf("client%d", k+1), func() {
			for _, o := range ops {
				switch o.K {
				case "check":
					err := pool.CheckTx(TxBytes[o.Tx], nil, mempool.TxInfo{SenderID: uint16(k + 1)})
					cr.log(fmt.Sprintf("CheckTx(%s) returned %s", TxNames[o.Tx], errClass(err)))
				case "reap":
					cr.noteReap(pool.ReapMaxBytesMaxGas(-1, -1))
				case "reaptxs":
					cr.noteReap(pool.ReapMaxTxs(-1))
				case "flush":
					pool.Flush()
					cr.log("Flush returned")
				}
			}
		})
	}
	if scn.Mode == "socket" {
		// the receive goroutine of the ABCI client: handles one response after the other, in request order
		s.Go("abci-recv", func() {
			for {
				parked := false
				if conn.qlen() == 0 && !cr.clientsDone() {
					parked = true
					s.Block("await request", func() bool { return conn.qlen() > 0 || cr.clientsDone() })
				}
				if conn.qlen() == 0 {
					return
				}
				if !parked {
					s.Point("deliver " + conn.headString())
				}
				conn.deliverHead(Verdicts[VOk])
			}
		})
	}
	s.OnStep = func() { cr.invariants("") }
	return s, cr
}

func (cr *concRun) clientsDone() bool {
	// evaluated while every thread is parked: all threads except the receive goroutine are done
	return cr.s.DoneExcept("abci-recv")
}

func (cr *concRun) noteReap(txs types.Txs) {
	var l []int
	for _, tx := range txs {
		l = append(l, TxOf(tx))
	}
	cr.reaps = append(cr.reaps, l)
	cr.log("reap returned " + names(l))
}

// invariants evaluates, with every thread parked at a scheduling point, the clauses of C12 that hold "at every
// moment"; after Update has returned also that the committed transactions are gone (the cache is large in
// these scenarios, so a committed transaction is remembered throughout).
func (cr *concRun) invariants(when string) {
	if cr.viol != nil {
		return
	}
	in := cr.in
	w := in.Walk()
	ver := in.C.Ver
	for _, t := range w {
		if count(w, t) > 1 {
			cr.viol = &Viol{fmt.Sprintf("mempool/v%d:concurrent:duplicate-entry", ver), fmt.Sprintf("%s is in the pool twice %s", TxNames[t], names(w))}
			return
		}
	}
	if len(w) > in.C.Size || in.Pool.Size() > in.C.Size {
		cr.viol = &Viol{fmt.Sprintf("mempool/v%d:concurrent:count-exceeds-size-limit", ver), fmt.Sprintf("pool %s, Size()=%d, configured Size=%d", names(w), in.Pool.Size(), in.C.Size)}
		return
	}
	if sumBytes(w) > in.C.MaxBytes || in.Pool.SizeBytes() > in.C.MaxBytes {
		cr.viol = &Viol{fmt.Sprintf("mempool/v%d:concurrent:bytes-exceed-max-txs-bytes", ver), fmt.Sprintf("pool %s holds %d bytes, SizeBytes()=%d, MaxTxsBytes=%d", names(w), sumBytes(w), in.Pool.SizeBytes(), in.C.MaxBytes)}
		return
	}
	if cr.updateDone {
		for i, t := range cr.scn.Block {
			if count(w, t) > 0 && (cr.scn.Codes[i] == 0 || cr.scn.Cfg.Keep) && cr.scn.Cfg.CacheSize >= len(TxBytes) && !cr.flushed() {
				cr.viol = &Viol{fmt.Sprintf("mempool/v%d:concurrent:committed-tx-in-pool-after-update", ver),
					fmt.Sprintf("%s was committed in the block, Update has returned and the cache remembers it, yet it is in the pool %s", TxNames[t], names(w))}
				return
			}
		}
	}
}

func (cr *concRun) flushed() bool {
	for _, j := range cr.journal {
		if j == "Flush returned" {
			return true
		}
	}
	return false
}

// c05Clause judges the mempool clause of C05 on the journal (diagnostic only, C05 is decided elsewhere): from
// the moment Commit is requested until Update has returned no first-time CheckTx request is issued, and none
// issued earlier is still unanswered (or answered but not yet applied) when Commit is requested.
func (cr *concRun) c05Clause() []string {
	var out []string
	req, upd := -1, -1
	for i, j := range cr.journal {
		if j == "Commit requested" {
			req = i
		}
		if j == "Update returned" {
			upd = i
		}
	}
	if req < 0 || upd < 0 {
		return nil
	}
	open := map[string]bool{}
	applied := map[string]bool{}
	for i, j := range cr.journal {
		switch {
		case strings.HasPrefix(j, "req CheckTx(") && strings.Contains(j, "recheck=false"):
			tx := j[len("req CheckTx("):strings.Index(j, ",")]
			if i > req && i < upd {
				out = append(out, "C05-clause:checktx-issued-between-commit-request-and-update")
			}
			open[tx] = true
		case strings.HasPrefix(j, "res CheckTx(") && strings.Contains(j, "recheck=false"):
			tx := j[len("res CheckTx("):strings.Index(j, ",")]
			delete(open, tx)
			applied[tx] = false
		case strings.HasPrefix(j, "CheckTx(") && strings.Contains(j, " returned issued"):
			tx := j[len("CheckTx("):strings.Index(j, ")")]
			if a, ok := applied[tx]; ok && !a {
				applied[tx] = true
			}
		}
		if i == req {
			if len(open) > 0 {
				out = append(out, "C05-clause:checktx-unanswered-when-commit-requested")
			}
			if cr.in.C.Ver == 1 {
				for _, a := range applied {
					if !a {
						out = append(out, "C05-clause:checktx-answered-but-not-applied-when-commit-requested")
					}
				}
			}
		}
	}
	return out
}

// judge evaluates one finished execution.
func (cr *concRun) judge(res *gosched.Result) (*Viol, []string) {
	ver := cr.in.C.Ver
	if cr.viol == nil {
		cr.invariants("end")
	}
	v := cr.viol
	var diags []string
	if res.Deadlock {
		diags = append(diags, "deadlock: "+strings.Join(res.Blocked, ","))
	}
	if res.Overrun {
		diags = append(diags, "step limit reached")
	}
	for _, p := range res.Panics {
		diags = append(diags, "panic: "+firstLine(p))
	}
	if v == nil {
		for _, l := range cr.reaps {
			for _, t := range l {
				if count(l, t) > 1 {
					v = &Viol{fmt.Sprintf("mempool/v%d:concurrent:reap-returns-duplicate", ver), "a reap returned " + names(l)}
				}
			}
		}
	}
	return v, append(diags, cr.c05Clause()...)
}

var concValSet = types.NewValidatorSet([]*types.Validator{types.NewValidator(ed25519.GenPrivKeyFromSecret([]byte("c12")).PubKey(), 10)})

// consensusConn is the consensus connection BlockExecutor.Commit talks to; only CommitSync is ever called.
type consensusConn struct{ cr *concRun }

func (c *consensusConn) SetResponseCallback(abcicli.Callback) {}
func (c *consensusConn) Error() error                         { return nil }
func (c *consensusConn) InitChainSync(abci.RequestInitChain) (*abci.ResponseInitChain, error) {
	panic("not used")
}
func (c *consensusConn) BeginBlockSync(abci.RequestBeginBlock) (*abci.ResponseBeginBlock, error) {
	panic("not used")
}
func (c *consensusConn) DeliverTxAsync(abci.RequestDeliverTx) *abcicli.ReqRes { panic("not used") }
func (c *consensusConn) EndBlockSync(abci.RequestEndBlock) (*abci.ResponseEndBlock, error) {
	panic("not used")
}
func (c *consensusConn) CommitSync() (*abci.ResponseCommit, error) {
	c.cr.s.Point("app Commit request")
	c.cr.log("Commit requested")
	c.cr.s.Point("app Commit response")
	c.cr.log("Commit done")
	c.cr.committed = true
	return &abci.ResponseCommit{}, nil
}

// verdict is the application of the concurrent layer: it accepts every transaction, except that once it has
// committed the block it rejects the block's transactions (replay protection, as any application with nonces
// has). A re-admission found under this application cannot be blamed on an application that accepts replays.
func (cr *concRun) verdict(tx int) Verdict {
	if cr.committed && count(cr.scn.Block, tx) > 0 {
		return Verdicts[VReject]
	}
	return Verdicts[VOk]
}

// conc-mode behaviour of the connection -----------------------------------------------------------

func (c *Conn) qlen() int { c.mu.Lock(); defer c.mu.Unlock(); return len(c.Q) }

func (c *Conn) headString() string {
	c.mu.Lock()
	defer c.mu.Unlock()
	p := c.Q[0]
	if p.Flush {
		return "Flush response"
	}
	return fmt.Sprintf("CheckTx(%s,recheck=%v) response", TxNames[p.Tx], p.Recheck)
}

// deliverHead handles the oldest request's response on the calling thread (the receive goroutine).
func (c *Conn) deliverHead(v Verdict) {
	c.mu.Lock()
	p := c.Q[0]
	c.Q = c.Q[1:]
	cb := c.cb
	c.mu.Unlock()
	if p.Flush {
		res := abci.ToResponseFlush()
		p.rr.Response = res
		p.rr.Done()
		if cb != nil {
			cb(p.rr.Request, res)
		}
		p.rr.InvokeCallback()
		p.answered = true
		return
	}
	if p.verdict != nil {
		v = *p.verdict
	}
	c.Conc.log(fmt.Sprintf("res CheckTx(%s,recheck=%v)=%s", TxNames[p.Tx], p.Recheck, v.Name))
	res := abci.ToResponseCheckTx(abci.ResponseCheckTx{Code: v.Code, Priority: v.Prio, GasWanted: v.Gas})
	p.rr.Response = res
	p.rr.Done()
	if cb != nil {
		cb(p.rr.Request, res)
	}
	p.rr.InvokeCallback()
	p.result = res.GetCheckTx()
	p.answered = true
}

func (c *Conn) concCheckTx(req abci.RequestCheckTx, syncCall bool) *Pend {
	cr := c.Conc
	p := &Pend{Tx: TxOf(req.Tx), Recheck: req.Type == abci.CheckTxType_Recheck, Sync: syncCall, rr: abcicli.NewReqRes(abci.ToRequestCheckTx(req))}
	what := fmt.Sprintf("req CheckTx(%s,recheck=%v)", TxNames[p.Tx], p.Recheck)
	cr.s.Point(what)
	cr.log(what)
	if cr.scn.Mode == "local" {
		// in-process application: the response is handled in the caller, before the call returns
		v := cr.verdict(p.Tx)
		cr.log(fmt.Sprintf("res CheckTx(%s,recheck=%v)=%s", TxNames[p.Tx], p.Recheck, v.Name))
		res := abci.ToResponseCheckTx(abci.ResponseCheckTx{Code: v.Code, Priority: v.Prio, GasWanted: v.Gas})
		c.mu.Lock()
		cb := c.cb
		c.mu.Unlock()
		p.rr.Response = res
		p.rr.Done()
		if cb != nil {
			cb(p.rr.Request, res)
		}
		p.rr.InvokeCallback()
		p.result = res.GetCheckTx()
		p.answered = true
		return p
	}
	// the application processes requests in arrival order; its verdict is fixed when the request arrives
	pv := cr.verdict(p.Tx)
	p.verdict = &pv
	c.mu.Lock()
	c.Q = append(c.Q, p)
	c.mu.Unlock()
	if syncCall {
		cr.s.Block("await CheckTx response", func() bool { return p.answered })
	}
	return p
}

func (c *Conn) concFlushSync() {
	cr := c.Conc
	cr.s.Point("req FlushSync")
	if cr.scn.Mode == "local" {
		return
	}
	p := &Pend{Flush: true, Tx: -1, rr: abcicli.NewReqRes(abci.ToRequestFlush())}
	c.mu.Lock()
	c.Q = append(c.Q, p)
	c.mu.Unlock()
	cr.s.Block("await Flush response", func() bool { return p.answered })
}

// Scenarios of the concurrent layer.
func ConcScenarios(ver int) []Scenario {
	var out []Scenario
	for _, mode := range []string{"socket", "local"} {
		big := Cfg{Ver: ver, Size: 3, MaxBytes: LooseBytes, CacheSize: 8, Recheck: false}
		// S1: the block commits a transaction this node has not seen yet, while it arrives from a peer; another
		// client submits an unrelated transaction.
		out = append(out, Scenario{Name: "commit-of-unseen-tx-races-its-arrival", Cfg: big, Mode: mode, Block: []int{2}, Codes: []int{0},
			Threads: [][]ThreadOp{{{K: "check", Tx: 2}}, {{K: "check", Tx: 0}}}})
		// S2: the block commits a pool member; two clients race for the last free slot (Size 2) around the update.
		small := Cfg{Ver: ver, Size: 2, MaxBytes: TightBytes, CacheSize: 8, Recheck: false}
		out = append(out, Scenario{Name: "commit-frees-a-slot-two-clients-race-for-it", Cfg: small, Mode: mode,
			Pre: []Op{{K: "submit", Tx: 0, Peer: 1, V: VOk}}, Block: []int{0}, Codes: []int{0},
			Threads: [][]ThreadOp{{{K: "check", Tx: 2}}, {{K: "check", Tx: 1}}}})
		// S3: the same transaction from two peers at once, a reap in between, around an empty block.
		out = append(out, Scenario{Name: "same-tx-from-two-peers-and-a-reap", Cfg: big, Mode: mode, Block: nil, Codes: nil,
			Threads: [][]ThreadOp{{{K: "check", Tx: 0}}, {{K: "check", Tx: 0}, {K: "reap"}}}})
		if ver == 0 {
			// S4 (v0: recheck goes through the connection): a recheck round is started by the update while a
			// client submits; the committed transaction is resubmitted.
			re := Cfg{Ver: ver, Size: 3, MaxBytes: LooseBytes, CacheSize: 8, Recheck: true}
			out = append(out, Scenario{Name: "update-starts-recheck-while-clients-submit", Cfg: re, Mode: mode,
				Pre: []Op{{K: "submit", Tx: 0, Peer: 1, V: VOk}, {K: "submit", Tx: 1, Peer: 1, V: VOk}}, Block: []int{0}, Codes: []int{0},
				Threads: [][]ThreadOp{{{K: "check", Tx: 2}}, {{K: "check", Tx: 0}}}})
		}
	}
	return out
}

// RunConc is the body of the concurrent parts: every scenario, every schedule with at most `bound` preemptions.
func RunConc(ad ConcAdapter, part string, quickBudget, thoroughBudget time.Duration) {
	// The same schedule exploration also decides the mempool clause of C05 ("from the moment a commit is requested
	// until the mempool has been updated and rechecked for that block, no check of a new transaction is started or in
	// flight on the mempool connection"): with VERIF_C12_AS_C05 set the part reports under property C05, the clause's
	// keys are the violations and the C12 verdicts are left to the C12 check.
	pid, asC05 := "C12", os.Getenv("VERIF_C12_AS_C05") != ""
	if asC05 {
		pid = "C05"
	}
	r := vr.Start(pid, part, quickBudget, thoroughBudget)
	defer r.Finish()
	c05Key := func(d string) string { return fmt.Sprintf("mempool/v%d:%s", ad.Ver(), d) }
	r.Rule = "every schedule (sequence of thread choices at the scheduling points: operations of the mempool's own lock and every call of the application connection) with at most the stated number of preemptions, per scenario; non-trivial = schedules with at least one preemption"
	r.Assume("scheduling points are the mempool's own RWMutex operations and the calls into the application connection; code between two points runs atomically (list, index and cache operations are internally locked or run under the mempool lock)")
	r.Assume("the application accepts every transaction except, after it has committed the block, the block's own transactions (replay protection); its verdict is fixed when the request reaches it; responses are handled in request order by one receive goroutine (socket mode) or in the caller (local mode)")
	judgeCase := func(cs ConcCase) (*Viol, []string, *gosched.Result, *concRun) {
		res, sc := gosched.Replay(cs.Choices, func() (*gosched.Sched, interface{}) { s, cr := buildConc(ad, cs.Scn, true); return s, cr })
		cr := sc.(*concRun)
		v, d := cr.judge(res)
		return v, d, res, cr
	}
	var rc ConcCase
	if replaying, skip := r.ReplayCase(&rc); skip {
		return
	} else if replaying {
		r.Eval()
		r.Traces++
		v, d, res, cr := judgeCase(rc)
		if asC05 {
			for _, x := range d {
				if strings.HasPrefix(x, "C05-clause") && !strings.Contains(x, "answered-but-not-applied") {
					r.Violation(c05Key(x), fmt.Sprintf("[%s/%s] schedule: %s ; journal: %s", rc.Scn.Name, rc.Scn.Mode, res, strings.Join(cr.journal, " ; ")), rc)
				}
			}
			return
		}
		if v != nil {
			r.Violation(v.Key, fmt.Sprintf("[%s/%s] %s ; schedule: %s ; journal: %s", rc.Scn.Name, rc.Scn.Mode, v.What, res, strings.Join(cr.journal, " ; ")), rc)
		}
		for _, x := range d {
			r.Note("diag: " + x)
		}
		return
	}
	noted := map[string]int{}
	nbuilt := 0
	var bounds []string
	k := 0
	for _, scn := range ConcScenarios(ad.Ver()) {
		k++
		if !r.Mine(k) {
			continue
		}
		scn := scn
		bound := vr.Pick(2, 3)
		if scn.Mode == "socket" && ad.Ver() == 1 {
			bound = vr.Pick(1, 2) // v1 has more scheduling points per CheckTx; the socket scenarios are the large ones
		}
		bounds = append(bounds, fmt.Sprintf("%s/%s:%d", scn.Name, scn.Mode, bound))
		execs, complete := gosched.Explore(bound,
			func() (*gosched.Sched, interface{}) {
				// goroutine identity is verified on a sample of the executions (and on every replay)
				nbuilt++
				s, cr := buildConc(ad, scn, nbuilt%64 == 1)
				return s, cr
			},
			func(res *gosched.Result, sc interface{}) bool {
				cr := sc.(*concRun)
				r.Eval()
				r.Traces++
				r.Transitions += int64(len(res.Steps))
				if len(res.Steps) > r.MaxDepth {
					r.MaxDepth = len(res.Steps)
				}
				if res.Preempts > 0 {
					r.NTCount(1)
				}
				v, diags := cr.judge(res)
				cs := ConcCase{Scn: scn, Choices: res.Choices, Trace: res.String()}
				w := cr.in.Walk()
				out := scn.Name + "/" + scn.Mode + " final=" + names(w)
				for _, d := range diags {
					key := d
					if i := strings.Index(d, ":"); i > 0 && !strings.HasPrefix(d, "C05-clause") {
						key = d[:i]
					}
					r.Add("diag_"+scn.Mode+"_"+key, 1)
					if strings.HasPrefix(d, "C05-clause") {
						out += " " + d
						// "answered but not applied" is outside the statement (the check is no longer in flight on the connection): diagnostic only
						if asC05 && !strings.Contains(d, "answered-but-not-applied") {
							r.Violation(c05Key(d), fmt.Sprintf("[%s/%s] schedule: %s ; journal: %s", scn.Name, scn.Mode, res, strings.Join(cr.journal, " ; ")), cs)
						}
					}
					if n, _ := noted[key]; n < 2 {
						noted[key] = n + 1
						r.Note(fmt.Sprintf("diag: [%s/%s v%d] %s ; schedule: %s ; journal: %s", scn.Name, scn.Mode, ad.Ver(), d, res, strings.Join(cr.journal, " ; ")))
					}
				}
				if v != nil && !asC05 {
					stable := vr.Confirm(3, v, func() error {
						v2, _, _, _ := judgeCase(cs)
						if v2 == nil {
							return nil
						}
						return v2
					})
					if !stable {
						r.Cap("a schedule did not reproduce its violation (treated as inconclusive): " + v.Key)
					} else {
						r.Violation(v.Key, fmt.Sprintf("[%s/%s] %s ; schedule: %s ; journal: %s", scn.Name, scn.Mode, v.What, res, strings.Join(cr.journal, " ; ")), cs)
					}
					out += " VIOLATION " + v.Key
				}
				r.Outcome(out)
				if execs := r.Evaluations; execs%500 == 1 {
					r.Sample(cs)
				}
				return !r.Deadline("schedule enumeration of " + scn.Name)
			})
		r.Set("schedules["+scn.Name+"/"+scn.Mode+"]", fmt.Sprintf("%d complete=%v", execs, complete))
		if !complete {
			break
		}
	}
	r.Bound = "all schedules within the preemption bound of each scenario: " + strings.Join(bounds, " ")
}
