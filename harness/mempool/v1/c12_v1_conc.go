package v1

// C12, concurrent layer for v1.TxMempool: the mempool's mtx (*sync.RWMutex, the "sync" import of
// mempool/v1/mempool.go is rewritten to internal/verif/gosched for this part) is put under the cooperative
// scheduler.

import (
	"testing"
	"time"

	"github.com/tendermint/tendermint/internal/verif/c12kit"
	"github.com/tendermint/tendermint/internal/verif/gosched"
)

type c12ConcAdapter struct{ c12Adapter }

func (c12ConcAdapter) Manage(p c12kit.Pool, s *gosched.Sched) {
	p.(*TxMempool).mtx.Manage(s, "mtx")
}

func TestVerifC12V1Conc(t *testing.T) {
	c12kit.RunConc(c12ConcAdapter{}, "v1-conc", 60*time.Second, 8*time.Minute)
}
