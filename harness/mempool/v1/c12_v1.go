package v1

// C12 — mempool contents stay unique, bounded, current and correctly ordered: adapter of the real
// v1.TxMempool (priority mempool) for the shared search (internal/verif/c12kit) and the test entry points.

import (
	"fmt"
	"sort"
	"strings"
	"sync/atomic"
	"testing"
	"time"

	abci "github.com/tendermint/tendermint/abci/types"
	"github.com/tendermint/tendermint/config"
	"github.com/tendermint/tendermint/internal/verif/c12kit"
	"github.com/tendermint/tendermint/libs/clist"
	"github.com/tendermint/tendermint/libs/log"
	"github.com/tendermint/tendermint/mempool"
	"github.com/tendermint/tendermint/types"
)

type c12Adapter struct{}

func (c12Adapter) Ver() int { return 1 }

func (c12Adapter) New(cfg *config.MempoolConfig, conn *c12kit.Conn, height int64, postHook func()) c12kit.Pool {
	// The post-check function is the only code the mempool calls while a response handler holds the write
	// lock; the harness uses it to learn that a recheck handler is running (it never rejects anything).
	return NewTxMempool(log.NewNopLogger(), cfg, conn, height, WithPostCheck(func(types.Tx, *abci.ResponseCheckTx) error {
		if postHook != nil {
			postHook()
		}
		return nil
	}))
}

func (c12Adapter) ElemTx(e *clist.CElement) []byte { return e.Value.(*WrappedTx).tx }

func (c12Adapter) Cache(p c12kit.Pool) []int {
	c, ok := p.(*TxMempool).cache.(*mempool.LRUTxCache)
	if !ok {
		return nil
	}
	var out []int
	for e := c.GetList().Front(); e != nil; e = e.Next() {
		out = append(out, c12kit.TxOfKey(e.Value.(types.TxKey)))
	}
	return out
}

func (c12Adapter) Indexed(p c12kit.Pool, tx int) bool {
	mp := p.(*TxMempool)
	mp.mtx.RLock()
	defer mp.mtx.RUnlock()
	_, ok := mp.txByKey[types.Tx(c12kit.TxBytes[tx]).Key()]
	return ok
}

func (a c12Adapter) Canon(p c12kit.Pool) string {
	mp := p.(*TxMempool)
	mp.mtx.RLock()
	defer mp.mtx.RUnlock()
	var b strings.Builder
	pos := map[*clist.CElement]int{}
	fmt.Fprintf(&b, "v1 h=%d bytes=%d len=%d list=", mp.height, atomic.LoadInt64(&mp.txsBytes), mp.txs.Len())
	n := 0
	for e := mp.txs.Front(); e != nil && n < 64; e = e.Next() {
		pos[e] = n
		n++
		w := e.Value.(*WrappedTx)
		fmt.Fprintf(&b, "(%d p%d g%d h%d s%q)", c12kit.TxOf(w.tx), w.priority, w.gasWanted, w.height, w.sender)
	}
	where := func(e *clist.CElement) int {
		if i, ok := pos[e]; ok {
			return i
		}
		return -2
	}
	var idx []string
	for k, e := range mp.txByKey {
		idx = append(idx, fmt.Sprintf("%d>%d", c12kit.TxOfKey(k), where(e)))
	}
	sort.Strings(idx)
	fmt.Fprintf(&b, " index=%v senders=%d cache=", idx, len(mp.txBySender))
	if c := a.Cache(p); c == nil {
		b.WriteString("off")
	} else {
		fmt.Fprint(&b, c)
	}
	return b.String()
}

// Quick: 3 transactions (a, C, b), one peer, unordered blocks of <= 2. Thorough: first the same alphabet one
// level deeper, then the wide alphabet (4 transactions, 2 peers, ordered blocks with all code mixes).
var (
	c12Narrow   = c12kit.Bounds{NTx: 3, Peers: []int{1}, MaxFlight: 2, Depth: 4, BlockMax: 2, Submit: true}
	c12Deep     = c12kit.Bounds{NTx: 3, Peers: []int{1}, MaxFlight: 2, Depth: 5, BlockMax: 2, Submit: true}
	c12Wide     = c12kit.Bounds{NTx: 4, Peers: []int{1, 2}, MaxFlight: 2, Depth: 4, BlockMax: 2, OrderedBlk: true, Submit: true}
	c12Quick    = []c12kit.Phase{{B: c12Narrow, Share: 1}}
	c12Thorough = []c12kit.Phase{{B: c12Deep, Share: 0.6}, {B: c12Wide, Share: 0.4}}
)

func TestVerifC12V1Seq(t *testing.T) {
	c12kit.RunSeq(c12Adapter{}, "v1-seq", 100*time.Second, 15*time.Minute, c12Quick, c12Thorough)
}
