package v0

// C17 part "mempool" — hostile-but-decodable messages against the real mempool v0 Reactor over a
// real CListMempool (kvstore app through a local ABCI client) with small configured capacities.
//
// Case = (mempool state, peer state, message). Reactor.Receive runs under the recover the
// MConnection applies (a panic there is a peer error, which the statement allows). Oracle
// (second sentence of the property): afterwards
//   - the pool holds no more than its configured capacities (Size txs, MaxTxsBytes bytes) and no
//     transaction above MaxTxBytes — "never makes it buffer more than the configured capacity";
//   - no lock is left held (a panic recovered by the connection while holding updateMtx would wedge
//     consensus, which takes that lock in Commit): updateMtx can be write-locked immediately;
//   - the consumers outside the connection's recover still work: ReapMaxBytesMaxGas, Lock/Update/
//     Unlock (what consensus does at commit) and FlushAppConn do not panic.

import (
	"bytes"
	"fmt"
	"net"
	"os"
	"sync"
	"sync/atomic"
	"testing"
	"time"

	"github.com/gogo/protobuf/proto"

	"github.com/tendermint/tendermint/abci/example/kvstore"
	abci "github.com/tendermint/tendermint/abci/types"
	cfg "github.com/tendermint/tendermint/config"
	"github.com/tendermint/tendermint/internal/verif/vr"
	"github.com/tendermint/tendermint/libs/log"
	"github.com/tendermint/tendermint/libs/service"
	"github.com/tendermint/tendermint/mempool"
	"github.com/tendermint/tendermint/p2p"
	tmconn "github.com/tendermint/tendermint/p2p/conn"
	protomem "github.com/tendermint/tendermint/proto/tendermint/mempool"
	"github.com/tendermint/tendermint/proxy"
	"github.com/tendermint/tendermint/types"
)

type c17Peer struct {
	id      p2p.ID
	mtx     sync.Mutex
	kv      map[string]interface{}
	stopped int32
}

var _ p2p.Peer = (*c17Peer)(nil)
var _ service.Service = (*c17Peer)(nil)

func newC17Peer(id string) *c17Peer                { return &c17Peer{id: p2p.ID(id), kv: map[string]interface{}{}} }
func (p *c17Peer) Start() error                    { return nil }
func (p *c17Peer) OnStart() error                  { return nil }
func (p *c17Peer) Stop() error                     { atomic.AddInt32(&p.stopped, 1); return nil }
func (p *c17Peer) OnStop()                         {}
func (p *c17Peer) Reset() error                    { return nil }
func (p *c17Peer) OnReset() error                  { return nil }
func (p *c17Peer) Quit() <-chan struct{}           { return make(chan struct{}) }
func (p *c17Peer) String() string                  { return "c17Peer{" + string(p.id) + "}" }
func (p *c17Peer) SetLogger(log.Logger)            {}
func (p *c17Peer) IsRunning() bool                 { return atomic.LoadInt32(&p.stopped) == 0 }
func (p *c17Peer) FlushStop()                      {}
func (p *c17Peer) ID() p2p.ID                      { return p.id }
func (p *c17Peer) RemoteIP() net.IP                { return net.IPv4(10, 0, 0, 17) }
func (p *c17Peer) RemoteAddr() net.Addr            { return &net.TCPAddr{IP: p.RemoteIP(), Port: 26656} }
func (p *c17Peer) IsOutbound() bool                { return false }
func (p *c17Peer) IsPersistent() bool              { return false }
func (p *c17Peer) CloseConn() error                { return nil }
func (p *c17Peer) NodeInfo() p2p.NodeInfo          { return p2p.DefaultNodeInfo{} }
func (p *c17Peer) Status() tmconn.ConnectionStatus { return tmconn.ConnectionStatus{} }
func (p *c17Peer) SocketAddr() *p2p.NetAddress     { return p2p.NewNetAddressIPPort(p.RemoteIP(), 26656) }
func (p *c17Peer) Send(byte, []byte) bool          { return true }
func (p *c17Peer) TrySend(byte, []byte) bool       { return true }
func (p *c17Peer) Set(k string, v interface{})     { p.mtx.Lock(); p.kv[k] = v; p.mtx.Unlock() }
func (p *c17Peer) Get(k string) interface{}        { p.mtx.Lock(); defer p.mtx.Unlock(); return p.kv[k] }
func (p *c17Peer) SetRemovalFailed()               {}
func (p *c17Peer) GetRemovalFailed() bool          { return false }

const (
	c17MaxTxBytes  = 40
	c17Size        = 4
	c17MaxTxsBytes = 100
	c17CacheSize   = 3
)

type c17MCase struct {
	Pool   int   `json:"pool"`   // 0 empty, 1 full by count, 2 nearly full by bytes, 3 after an Update that committed tx "k1=v"
	Inited bool  `json:"inited"` // InitPeer called for the peer
	Kind   int   `json:"kind"`   // 0 Txs message, 1 empty oneof, 2 garbage bytes, 3 Txs on a wrong channel id
	Sizes  []int `json:"sizes"`  // tx sizes of the Txs message
	Dup    bool  `json:"dup"`    // all txs identical
}

type c17MEnv struct {
	config *cfg.Config
}

func (e *c17MEnv) build(c c17MCase) (*Reactor, *CListMempool, func()) {
	app := kvstore.NewApplication()
	cc := proxy.NewLocalClientCreator(app)
	conn, err := cc.NewABCIClient()
	if err != nil {
		panic(err)
	}
	conn.SetLogger(log.NewNopLogger())
	if err := conn.Start(); err != nil {
		panic(err)
	}
	mc := *e.config.Mempool
	mc.Size, mc.MaxTxsBytes, mc.MaxTxBytes, mc.CacheSize, mc.Broadcast = c17Size, c17MaxTxsBytes, c17MaxTxBytes, c17CacheSize, false
	mp := NewCListMempool(&mc, conn, 0)
	mp.SetLogger(log.NewNopLogger())
	r := NewReactor(&mc, mp)
	r.SetLogger(log.NewNopLogger())
	tr := p2p.NewMultiplexTransport(p2p.DefaultNodeInfo{}, p2p.NodeKey{}, tmconn.DefaultMConnConfig())
	sw := p2p.NewSwitch(e.config.P2P, tr)
	sw.SetLogger(log.NewNopLogger())
	sw.AddReactor("MEMPOOL", r)
	fill := func(n int, size int) {
		for i := 0; i < n; i++ {
			tx := bytes.Repeat([]byte{byte('a' + i)}, size)
			if err := mp.CheckTx(tx, nil, mempool.TxInfo{}); err != nil {
				panic(fmt.Sprintf("c17: fill CheckTx: %v", err))
			}
		}
	}
	switch c.Pool {
	case 1:
		fill(c17Size, 5)
	case 2:
		fill(2, c17MaxTxBytes) // 80 of 100 bytes
	case 3:
		tx := []byte("k1=v")
		if err := mp.CheckTx(tx, nil, mempool.TxInfo{}); err != nil {
			panic(err)
		}
		mp.Lock()
		if err := mp.Update(1, types.Txs{tx}, []*abci.ResponseDeliverTx{{Code: 0}}, nil, nil); err != nil {
			panic(err)
		}
		mp.Unlock()
	}
	return r, mp, func() { _ = conn.Stop() }
}

func c17MPayload(c c17MCase) (byte, []byte) {
	switch c.Kind {
	case 1:
		bz, _ := proto.Marshal(&protomem.Message{})
		return mempool.MempoolChannel, bz
	case 2:
		return mempool.MempoolChannel, []byte{0x0a, 0xff, 0xff, 0xff, 0x0f, 0x01}
	}
	var txs [][]byte
	for i, s := range c.Sizes {
		b := bytes.Repeat([]byte{byte('p' + i)}, s)
		if c.Dup {
			b = bytes.Repeat([]byte{'d'}, s)
		}
		if s == 4 && !c.Dup {
			b = []byte("k1=v") // the tx committed in pool state 3 (cache hit)
		}
		txs = append(txs, b)
	}
	m := &protomem.Txs{Txs: txs}
	bz, err := proto.Marshal(m.Wrap())
	if err != nil {
		panic(err)
	}
	ch := byte(mempool.MempoolChannel)
	if c.Kind == 3 {
		ch = 0x7f
	}
	return ch, bz
}

func (e *c17MEnv) run(c c17MCase) (key, what, outcome string) {
	r, mp, done := e.build(c)
	defer done()
	peer := newC17Peer("hostile")
	if c.Inited {
		r.InitPeer(peer)
	}
	ch, bz := c17MPayload(c)
	recvPanic := ""
	func() {
		defer func() {
			if x := recover(); x != nil {
				recvPanic = fmt.Sprint(x)
			}
		}()
		r.Receive(ch, peer, bz)
	}()
	desc := fmt.Sprintf("%+v", c)
	// locks
	if !mp.updateMtx.TryLock() {
		return "mempool/v0:updateMtx-left-locked-after-Receive", "after Receive (panic=" + recvPanic + ") the mempool's update lock is still held: consensus would block in Commit: " + desc, ""
	}
	mp.updateMtx.Unlock()
	// capacities
	if mp.Size() > c17Size || mp.SizeBytes() > c17MaxTxsBytes {
		return "mempool/v0:pool-exceeds-configured-capacity", fmt.Sprintf("pool holds %d txs / %d bytes (limits %d / %d): %s", mp.Size(), mp.SizeBytes(), c17Size, c17MaxTxsBytes, desc), ""
	}
	for el := mp.TxsFront(); el != nil; el = el.Next() {
		if n := len(el.Value.(*mempoolTx).tx); n > c17MaxTxBytes {
			return "mempool/v0:tx-above-MaxTxBytes-admitted", fmt.Sprintf("a %d-byte tx is in the pool (MaxTxBytes %d): %s", n, c17MaxTxBytes, desc), ""
		}
	}
	sizeAfter, bytesAfter := mp.Size(), mp.SizeBytes()
	// consumers outside the connection's recover
	var cons string
	func() {
		defer func() {
			if x := recover(); x != nil {
				cons = fmt.Sprint(x)
			}
		}()
		txs := mp.ReapMaxBytesMaxGas(-1, -1)
		_ = mp.ReapMaxTxs(-1)
		mp.Lock()
		if err := mp.FlushAppConn(); err != nil {
			panic(err)
		}
		res := make([]*abci.ResponseDeliverTx, len(txs))
		for i := range res {
			res[i] = &abci.ResponseDeliverTx{Code: 0}
		}
		if err := mp.Update(mp.height+1, txs, res, nil, nil); err != nil {
			panic(err)
		}
		mp.Unlock()
	}()
	if cons != "" {
		return "mempool/v0:commit-path-panics-after-hostile-message", "Reap/Lock/Update/Unlock panicked: " + cons + ": " + desc, ""
	}
	out := "accepted"
	if recvPanic != "" {
		out = "recv-panic(peer-error)"
	} else if atomic.LoadInt32(&peer.stopped) > 0 {
		out = "peer-stopped"
	}
	return "", "", fmt.Sprintf("%s:pool=%dtx/%dB", out, sizeAfter, bytesAfter)
}

func TestVerifC17Mempool(t *testing.T) {
	r := vr.Start("C17", "mempool", 40*time.Second, 5*time.Minute)
	defer r.Finish()
	r.Rule = "odometer over (pool state, peer known to the reactor or not, message kind, tx-size vector from {0,1,4(committed tx),MaxTxBytes-1,MaxTxBytes,MaxTxBytes+1,2000} of length <=3 (thorough 4), all-identical or distinct); every tuple is a distinct execution on a fresh mempool"
	e := &c17MEnv{config: cfg.ResetTestRoot("c17_mempool")}
	defer os.RemoveAll(e.config.RootDir)
	var rc c17MCase
	if rep, skip := r.ReplayCase(&rc); skip {
		return
	} else if rep {
		r.Eval()
		if k, w, _ := e.run(rc); k != "" {
			r.Violation(k, w, rc)
		}
		return
	}
	sizes := []int{0, 1, 4, c17MaxTxBytes - 1, c17MaxTxBytes, c17MaxTxBytes + 1, 2000}
	var vecs [][]int
	vecs = append(vecs, []int{})
	var rec func(cur []int, n int)
	rec = func(cur []int, n int) {
		if len(cur) == n {
			vecs = append(vecs, append([]int{}, cur...))
			return
		}
		for _, s := range sizes {
			rec(append(cur, s), n)
		}
	}
	for n := 1; n <= vr.Pick(3, 4); n++ {
		rec(nil, n)
	}
	k := 0
	for pool := 0; pool < 4; pool++ {
		for _, inited := range []bool{false, true} {
			var cases []c17MCase
			cases = append(cases, c17MCase{Pool: pool, Inited: inited, Kind: 1}, c17MCase{Pool: pool, Inited: inited, Kind: 2})
			for _, v := range vecs {
				for _, dup := range []bool{false, true} {
					if dup && len(v) < 2 {
						continue
					}
					cases = append(cases, c17MCase{Pool: pool, Inited: inited, Kind: 0, Sizes: v, Dup: dup})
				}
				if len(v) == 1 {
					cases = append(cases, c17MCase{Pool: pool, Inited: inited, Kind: 3, Sizes: v})
				}
			}
			for _, c := range cases {
				k++
				if !r.Mine(k) {
					continue
				}
				if k%64 == 0 && r.Deadline("C17 mempool enumeration") {
					return
				}
				r.Eval()
				r.NTCount(1)
				key, what, out := e.run(c)
				if key != "" {
					if !vr.Confirm(3, fmt.Errorf("%s", key), func() error {
						k2, _, _ := e.run(c)
						if k2 == "" {
							return nil
						}
						return fmt.Errorf("%s", k2)
					}) {
						r.Cap("unstable failure " + key)
						continue
					}
					r.Violation(key, what, c)
					r.Outcome("violation")
					continue
				}
				r.Outcome(out)
				if k%997 == 1 {
					r.Sample(c)
				}
			}
		}
	}
	r.Bound = fmt.Sprintf("4 pool states x 2 peer states x (2 undecodable kinds + all tx-size vectors of length <=%d x {distinct, identical})", vr.Pick(3, 4))
	if r.Shard == 0 {
		r.Set("cases_enumerated_total", k)
	}
}
