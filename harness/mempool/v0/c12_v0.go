package v0

// C12 — mempool contents stay unique, bounded, current and correctly ordered: adapter of the real
// v0.CListMempool for the shared search (internal/verif/c12kit) and the test entry points.

import (
	"fmt"
	"sort"
	"strings"
	"sync/atomic"
	"testing"
	"time"

	"github.com/tendermint/tendermint/config"
	"github.com/tendermint/tendermint/internal/verif/c12kit"
	"github.com/tendermint/tendermint/libs/clist"
	"github.com/tendermint/tendermint/mempool"
	"github.com/tendermint/tendermint/types"
)

type c12Adapter struct{}

func (c12Adapter) Ver() int { return 0 }

func (c12Adapter) New(cfg *config.MempoolConfig, conn *c12kit.Conn, height int64, postHook func()) c12kit.Pool {
	return NewCListMempool(cfg, conn, height)
}

func (c12Adapter) ElemTx(e *clist.CElement) []byte { return e.Value.(*mempoolTx).tx }

func (c12Adapter) Cache(p c12kit.Pool) []int {
	mp := p.(*CListMempool)
	c, ok := mp.cache.(*mempool.LRUTxCache)
	if !ok {
		return nil
	}
	var out []int
	for e := c.GetList().Front(); e != nil; e = e.Next() {
		out = append(out, c12kit.TxOfKey(e.Value.(types.TxKey)))
	}
	return out
}

func (c12Adapter) Indexed(p c12kit.Pool, tx int) bool {
	_, ok := p.(*CListMempool).txsMap.Load(types.Tx(c12kit.TxBytes[tx]).Key())
	return ok
}

func (a c12Adapter) Canon(p c12kit.Pool) string {
	mp := p.(*CListMempool)
	var b strings.Builder
	pos := map[*clist.CElement]int{}
	fmt.Fprintf(&b, "v0 h=%d bytes=%d len=%d list=", mp.height, atomic.LoadInt64(&mp.txsBytes), mp.txs.Len())
	n := 0
	for e := mp.txs.Front(); e != nil && n < 64; e = e.Next() {
		pos[e] = n
		n++
		m := e.Value.(*mempoolTx)
		fmt.Fprintf(&b, "(%d g%d)", c12kit.TxOf(m.tx), m.gasWanted)
	}
	where := func(e *clist.CElement) int {
		if e == nil {
			return -1
		}
		if i, ok := pos[e]; ok {
			return i
		}
		return -2 // points to an element that is no longer in the list
	}
	var idx []string
	mp.txsMap.Range(func(k, v interface{}) bool {
		idx = append(idx, fmt.Sprintf("%d>%d", c12kit.TxOfKey(k.(types.TxKey)), where(v.(*clist.CElement))))
		return true
	})
	sort.Strings(idx)
	fmt.Fprintf(&b, " index=%v cursor=%d end=%d cache=", idx, where(mp.recheckCursor), where(mp.recheckEnd))
	if c := a.Cache(p); c == nil {
		b.WriteString("off")
	} else {
		fmt.Fprint(&b, c)
	}
	return b.String()
}

// Quick: 3 transactions (a, C, b), one peer, unordered blocks of <= 2. Thorough: first the same alphabet one
// level deeper, then the wide alphabet (4 transactions, 2 peers, ordered blocks with all code mixes).
var (
	c12Narrow   = c12kit.Bounds{NTx: 3, Peers: []int{1}, MaxFlight: 2, Depth: 6, BlockMax: 2, Submit: true}
	c12Deep     = c12kit.Bounds{NTx: 3, Peers: []int{1}, MaxFlight: 2, Depth: 7, BlockMax: 2, Submit: true}
	c12Wide     = c12kit.Bounds{NTx: 4, Peers: []int{1, 2}, MaxFlight: 2, Depth: 5, BlockMax: 2, OrderedBlk: true, Submit: true}
	c12Quick    = []c12kit.Phase{{B: c12Narrow, Share: 1}}
	c12Thorough = []c12kit.Phase{{B: c12Deep, Share: 0.6}, {B: c12Wide, Share: 0.4}}
)

func TestVerifC12V0Seq(t *testing.T) {
	c12kit.RunSeq(c12Adapter{}, "v0-seq", 100*time.Second, 15*time.Minute, c12Quick, c12Thorough)
}
