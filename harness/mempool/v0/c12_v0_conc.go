package v0

// C12, concurrent layer for v0.CListMempool: the mempool's updateMtx (a tmsync.RWMutex, whose "sync" import is
// rewritten to internal/verif/gosched for this part) is put under the cooperative scheduler.

import (
	"testing"
	"time"

	"github.com/tendermint/tendermint/internal/verif/c12kit"
	"github.com/tendermint/tendermint/internal/verif/gosched"
)

type c12ConcAdapter struct{ c12Adapter }

func (c12ConcAdapter) Manage(p c12kit.Pool, s *gosched.Sched) {
	p.(*CListMempool).updateMtx.RWMutex.Manage(s, "updateMtx")
}

func TestVerifC12V0Conc(t *testing.T) {
	c12kit.RunConc(c12ConcAdapter{}, "v0-conc", 60*time.Second, 8*time.Minute)
}
