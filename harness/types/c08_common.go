package types

// C08 — shared machinery of the two `types` parts (updates, rotation):
//   - a 4-address universe with real ed25519 keys (index = rank of the address),
//   - operation paths (base set, then batches / proposer increments) that rebuild a real ValidatorSet,
//   - a canonical encoding of the property-relevant state of a ValidatorSet (state-hash search),
//   - a math/big reference of the *specified* proposer selection (spec/consensus/proposer-selection.md):
//     every run = scale to the 2*P window, centre on the average, add powers, elect the maximum,
//     subtract P; new validators enter at -1.125*P,
//   - a map-based reference of what a batch of changes means.

import (
	"bytes"
	"encoding/binary"
	"fmt"
	"math/big"
	"sort"

	"github.com/tendermint/tendermint/crypto"
	"github.com/tendermint/tendermint/crypto/ed25519"
)

const c08N = 4 // address universe

var c08M = MaxTotalVotingPower

type c08Env struct {
	pubs  [c08N]crypto.PubKey // ascending by address
	addrs [c08N]Address
	idx   map[string]int
}

func newC08Env() *c08Env {
	e := &c08Env{idx: map[string]int{}}
	ps := []crypto.PubKey{}
	for i := 0; i < c08N; i++ {
		ps = append(ps, ed25519.GenPrivKeyFromSecret([]byte(fmt.Sprintf("verif-c08-key-%d", i))).PubKey())
	}
	sort.Slice(ps, func(i, j int) bool { return bytes.Compare(ps[i].Address(), ps[j].Address()) < 0 })
	for i, p := range ps {
		e.pubs[i], e.addrs[i] = p, p.Address()
		e.idx[string(p.Address())] = i
	}
	return e
}

// c08Change is one entry of a batch: address index and new power (0 = remove).
type c08Change struct {
	A int   `json:"a"`
	P int64 `json:"p"`
}

// c08Op: apply Batch with UpdateWithChangeSet (if non-empty; it must succeed on a path), then
// IncrementProposerPriority(Inc) if Inc > 0.
type c08Op struct {
	Batch []c08Change `json:"batch,omitempty"`
	Inc   int32       `json:"inc"`
}

// c08Path identifies a state: NewValidatorSet over Base (power of address i, 0 = absent), then Ops.
type c08Path struct {
	Base []int64 `json:"base"`
	Ops  []c08Op `json:"ops,omitempty"`
}

func (e *c08Env) vals(batch []c08Change) []*Validator {
	out := make([]*Validator, len(batch))
	for i, c := range batch {
		out[i] = NewValidator(e.pubs[c.A], c.P)
	}
	return out
}

func (e *c08Env) fresh(base []int64) *ValidatorSet {
	vs := []*Validator{}
	for i, p := range base {
		if p != 0 {
			vs = append(vs, NewValidator(e.pubs[i], p))
		}
	}
	return NewValidatorSet(vs)
}

func (e *c08Env) apply(vs *ValidatorSet, op c08Op) error {
	if len(op.Batch) > 0 {
		if err := vs.UpdateWithChangeSet(e.vals(op.Batch)); err != nil {
			return err
		}
	}
	if op.Inc > 0 {
		vs.IncrementProposerPriority(op.Inc)
	}
	return nil
}

// build replays a path on the real code from scratch.
func (e *c08Env) build(p c08Path) (*ValidatorSet, error) {
	vs := e.fresh(p.Base)
	for i, op := range p.Ops {
		if err := e.apply(vs, op); err != nil {
			return nil, fmt.Errorf("op %d of path failed: %v", i, err)
		}
	}
	return vs, nil
}

// c08Clone is a faithful deep copy (including the cached total and the aliasing of Proposer to a member).
// ValidatorSet is plain data, so a clone of a reached state has the same futures as a replay of its path;
// violations are nevertheless confirmed on a set rebuilt from the path.
func c08Clone(vs *ValidatorSet) *ValidatorSet {
	out := &ValidatorSet{Validators: make([]*Validator, len(vs.Validators)), totalVotingPower: vs.totalVotingPower}
	for i, v := range vs.Validators {
		c := *v
		out.Validators[i] = &c
		if vs.Proposer == v {
			out.Proposer = &c
		}
	}
	if vs.Proposer != nil && out.Proposer == nil {
		c := *vs.Proposer
		out.Proposer = &c
	}
	return out
}

// c08Canon: everything a later UpdateWithChangeSet / IncrementProposerPriority / GetProposer can read:
// the member list in slice order (address, power, priority), the proposer record and the cached total.
// PubKey is a function of the address in this universe. Two sets with equal encodings are therefore
// indistinguishable by any further operation, which is what justifies merging them in the search.
func (e *c08Env) canon(vs *ValidatorSet) string {
	b := make([]byte, 0, 1+17*len(vs.Validators)+17+8)
	b = append(b, byte(len(vs.Validators)))
	put := func(v *Validator) {
		i, ok := e.idx[string(v.Address)]
		if !ok {
			i = 200
		}
		b = append(b, byte(i))
		b = binary.BigEndian.AppendUint64(b, uint64(v.VotingPower))
		b = binary.BigEndian.AppendUint64(b, uint64(v.ProposerPriority))
	}
	for _, v := range vs.Validators {
		put(v)
	}
	if vs.Proposer == nil {
		b = append(b, 255)
	} else {
		put(vs.Proposer)
	}
	b = binary.BigEndian.AppendUint64(b, uint64(vs.totalVotingPower))
	return string(b)
}

// c08Diff deep-compares two sets (order, address, key, power, priority, proposer record); "" if equal.
func c08Diff(a, b *ValidatorSet) string {
	if len(a.Validators) != len(b.Validators) {
		return fmt.Sprintf("size %d vs %d", len(a.Validators), len(b.Validators))
	}
	for i := range a.Validators {
		x, y := a.Validators[i], b.Validators[i]
		if !bytes.Equal(x.Address, y.Address) || !x.PubKey.Equals(y.PubKey) {
			return fmt.Sprintf("slot %d holds %X vs %X", i, x.Address[:3], y.Address[:3])
		}
		if x.VotingPower != y.VotingPower {
			return fmt.Sprintf("slot %d power %d vs %d", i, x.VotingPower, y.VotingPower)
		}
		if x.ProposerPriority != y.ProposerPriority {
			return fmt.Sprintf("slot %d priority %d vs %d", i, x.ProposerPriority, y.ProposerPriority)
		}
	}
	if (a.Proposer == nil) != (b.Proposer == nil) {
		return "proposer nil vs set"
	}
	if a.Proposer != nil {
		x, y := a.Proposer, b.Proposer
		if !bytes.Equal(x.Address, y.Address) || x.VotingPower != y.VotingPower || x.ProposerPriority != y.ProposerPriority {
			return fmt.Sprintf("proposer record %X/%d/%d vs %X/%d/%d", x.Address[:3], x.VotingPower, x.ProposerPriority,
				y.Address[:3], y.VotingPower, y.ProposerPriority)
		}
	}
	return ""
}

func (e *c08Env) show(vs *ValidatorSet) string {
	s := "["
	for i, v := range vs.Validators {
		if i > 0 {
			s += " "
		}
		s += fmt.Sprintf("%d:vp=%d,a=%d", e.idx[string(v.Address)], v.VotingPower, v.ProposerPriority)
	}
	s += "]"
	if vs.Proposer != nil {
		s += fmt.Sprintf(" prop=%d", e.idx[string(vs.Proposer.Address)])
	}
	return s
}

// ---------------------------------------------------------------------------------------------
// map-based reference of a batch

// c08RefBatch returns the member->power map a batch must produce, or the reason it cannot be applied.
func c08RefBatch(cur map[int]int64, batch []c08Change) (next map[int]int64, reject string) {
	seen := map[int]bool{}
	for _, c := range batch {
		if seen[c.A] {
			return nil, "duplicate-address"
		}
		seen[c.A] = true
	}
	for _, c := range batch {
		if c.P < 0 {
			return nil, "negative-power"
		}
		if c.P > c08M {
			return nil, "power-above-limit"
		}
	}
	next = map[int]int64{}
	for a, p := range cur {
		next[a] = p
	}
	for _, c := range batch {
		if c.P == 0 {
			if _, ok := cur[c.A]; !ok {
				return nil, "remove-non-member"
			}
			delete(next, c.A)
		} else {
			next[c.A] = c.P
		}
	}
	if len(next) == 0 {
		return nil, "empty-result"
	}
	sum := new(big.Int)
	for _, p := range next {
		sum.Add(sum, big.NewInt(p))
	}
	if sum.Cmp(big.NewInt(c08M)) > 0 {
		return nil, "total-above-limit"
	}
	return next, ""
}

func (e *c08Env) members(vs *ValidatorSet) map[int]int64 {
	m := map[int]int64{}
	for _, v := range vs.Validators {
		m[e.idx[string(v.Address)]] = v.VotingPower
	}
	return m
}

// c08Invariants: what the statement lists for a set that came out of a successful batch.
func (e *c08Env) invariants(vs *ValidatorSet) string {
	if len(vs.Validators) == 0 {
		return "empty-set"
	}
	seen := map[string]bool{}
	sum := new(big.Int)
	for i, v := range vs.Validators {
		if seen[string(v.Address)] {
			return "duplicate-address"
		}
		seen[string(v.Address)] = true
		if v.VotingPower <= 0 {
			return "non-positive-power-member"
		}
		sum.Add(sum, big.NewInt(v.VotingPower))
		if i > 0 {
			p := vs.Validators[i-1]
			if p.VotingPower < v.VotingPower || (p.VotingPower == v.VotingPower && bytes.Compare(p.Address, v.Address) >= 0) {
				return "not-in-canonical-order"
			}
		}
	}
	if sum.Cmp(big.NewInt(c08M)) > 0 {
		return "total-above-limit"
	}
	return ""
}

// ---------------------------------------------------------------------------------------------
// math/big reference of the specified proposer selection

type c08RefVal struct {
	A    int
	VP   int64
	Prio *big.Int
}

// c08Ref carries unbounded priorities. Over records the first intermediate value that would not fit an
// int64 (the implementation computes in int64 with clipping; the statement says that must never matter).
type c08Ref struct {
	Vals []c08RefVal
	Over string
	// spec readings that the text leaves open (only used for diagnostics)
	AvgTrunc       bool // average rounded toward zero instead of floor
	PenaltyOnFinal bool // -1.125*P with P = total of the final set instead of total before removals
}

func (e *c08Env) refFrom(vs *ValidatorSet) *c08Ref {
	r := &c08Ref{}
	for _, v := range vs.Validators {
		r.Vals = append(r.Vals, c08RefVal{A: e.idx[string(v.Address)], VP: v.VotingPower, Prio: big.NewInt(v.ProposerPriority)})
	}
	return r
}

func (r *c08Ref) clone() *c08Ref {
	o := &c08Ref{Over: r.Over, AvgTrunc: r.AvgTrunc, PenaltyOnFinal: r.PenaltyOnFinal}
	for _, v := range r.Vals {
		o.Vals = append(o.Vals, c08RefVal{A: v.A, VP: v.VP, Prio: new(big.Int).Set(v.Prio)})
	}
	return o
}

func (r *c08Ref) note(x *big.Int, what string) {
	if r.Over == "" && !x.IsInt64() {
		r.Over = fmt.Sprintf("%s = %v does not fit int64", what, x)
	}
}

func (r *c08Ref) total() *big.Int {
	s := new(big.Int)
	for _, v := range r.Vals {
		s.Add(s, big.NewInt(v.VP))
	}
	return s
}

// scale: "if diff > 2*P: divide every priority by an integer so that the window is at most 2*P"
// (ceil(diff/2P), the smallest integer divisor that achieves the stated bound; Go-style truncating division).
func (r *c08Ref) scale() {
	max, min := new(big.Int).Set(r.Vals[0].Prio), new(big.Int).Set(r.Vals[0].Prio)
	for _, v := range r.Vals {
		if v.Prio.Cmp(max) > 0 {
			max.Set(v.Prio)
		}
		if v.Prio.Cmp(min) < 0 {
			min.Set(v.Prio)
		}
	}
	diff := new(big.Int).Sub(max, min)
	r.note(diff, "max-min priority")
	thr := new(big.Int).Mul(big.NewInt(PriorityWindowSizeFactor), r.total())
	if thr.Sign() <= 0 || diff.Cmp(thr) <= 0 {
		return
	}
	t := new(big.Int).Add(diff, thr)
	t.Sub(t, big.NewInt(1))
	r.note(t, "diff+2P-1")
	ratio := t.Div(t, thr)
	for _, v := range r.Vals {
		v.Prio.Quo(v.Prio, ratio)
	}
}

func (r *c08Ref) centre() {
	sum := new(big.Int)
	for _, v := range r.Vals {
		sum.Add(sum, v.Prio)
	}
	n := big.NewInt(int64(len(r.Vals)))
	var avg *big.Int
	if r.AvgTrunc {
		avg = new(big.Int).Quo(sum, n)
	} else {
		avg = new(big.Int).Div(sum, n) // n > 0: floor
	}
	for _, v := range r.Vals {
		v.Prio.Sub(v.Prio, avg)
		r.note(v.Prio, "centred priority")
	}
}

// elect: A(i) += VP(i); prop = max(A) (ties: lowest address — the text does not say, the determinism
// requirement R1 needs some fixed rule); A(prop) -= P.
func (r *c08Ref) elect() int {
	best := -1
	for i, v := range r.Vals {
		v.Prio.Add(v.Prio, big.NewInt(v.VP))
		r.note(v.Prio, "priority+power")
		if best < 0 {
			best = i
			continue
		}
		c := v.Prio.Cmp(r.Vals[best].Prio)
		if c > 0 || (c == 0 && v.A < r.Vals[best].A) {
			best = i
		}
	}
	r.Vals[best].Prio.Sub(r.Vals[best].Prio, r.total())
	r.note(r.Vals[best].Prio, "priority-P")
	return r.Vals[best].A
}

// run is one ProposerSelection(vset) of the specification.
func (r *c08Ref) run() int {
	r.scale()
	r.centre()
	return r.elect()
}

// update applies a batch that c08RefBatch accepted: members/powers from the map, priorities per the text
// (kept for existing members, -1.125*P for new ones, then scale and centre).
func (r *c08Ref) update(batch []c08Change) {
	cur := map[int]int{}
	for i, v := range r.Vals {
		cur[v.A] = i
	}
	// P "of the set including V": all updates applied, removals not yet (the implementation's documented
	// reading) or the final set (PenaltyOnFinal).
	P := r.total()
	for _, c := range batch {
		if c.P == 0 {
			if r.PenaltyOnFinal {
				P.Sub(P, big.NewInt(r.Vals[cur[c.A]].VP))
			}
			continue
		}
		if i, ok := cur[c.A]; ok {
			P.Add(P, big.NewInt(c.P-r.Vals[i].VP))
		} else {
			P.Add(P, big.NewInt(c.P))
		}
	}
	pen := new(big.Int).Add(P, new(big.Int).Rsh(P, 3)) // 1.125*P in integers
	pen.Neg(pen)
	r.note(pen, "-1.125*P")
	out := []c08RefVal{}
	removed := map[int]bool{}
	for _, c := range batch {
		if c.P == 0 {
			removed[c.A] = true
		}
	}
	for _, v := range r.Vals {
		if !removed[v.A] {
			out = append(out, v)
		}
	}
	for _, c := range batch {
		if c.P == 0 {
			continue
		}
		found := false
		for i := range out {
			if out[i].A == c.A {
				out[i].VP = c.P
				found = true
			}
		}
		if !found {
			out = append(out, c08RefVal{A: c.A, VP: c.P, Prio: new(big.Int).Set(pen)})
		}
	}
	sort.Slice(out, func(i, j int) bool {
		if out[i].VP != out[j].VP {
			return out[i].VP > out[j].VP
		}
		return out[i].A < out[j].A
	})
	r.Vals = out
	r.scale()
	r.centre()
}

// samePrios says whether the implementation's priorities equal the reference's.
func (e *c08Env) samePrios(vs *ValidatorSet, r *c08Ref) bool {
	if len(vs.Validators) != len(r.Vals) {
		return false
	}
	for _, v := range vs.Validators {
		ok := false
		for _, w := range r.Vals {
			if w.A == e.idx[string(v.Address)] {
				ok = w.Prio.IsInt64() && w.Prio.Int64() == v.ProposerPriority && w.VP == v.VotingPower
			}
		}
		if !ok {
			return false
		}
	}
	return true
}

// ---------------------------------------------------------------------------------------------
// alphabets and the state-hash search

// c08Multisets calls f with every multiset (non-decreasing index tuple) of at most k of the n changes,
// smallest first.
func c08Multisets(changes []c08Change, k int, f func([]c08Change) bool) {
	if !f(nil) {
		return
	}
	var rec func(start int, cur []c08Change, left int) bool
	for size := 1; size <= k; size++ {
		rec = func(start int, cur []c08Change, left int) bool {
			if left == 0 {
				return f(append([]c08Change{}, cur...))
			}
			for i := start; i < len(changes); i++ {
				if !rec(i, append(cur, changes[i]), left-1) {
					return false
				}
			}
			return true
		}
		if !rec(0, nil, size) {
			return
		}
	}
}

// c08Perms: all distinct orderings of a batch (equal entries must be adjacent, as c08Multisets produces them).
func c08Perms(b []c08Change) [][]c08Change {
	if len(b) <= 1 {
		return [][]c08Change{b}
	}
	out := [][]c08Change{}
	used := make([]bool, len(b))
	cur := make([]c08Change, 0, len(b))
	var rec func()
	rec = func() {
		if len(cur) == len(b) {
			out = append(out, append([]c08Change{}, cur...))
			return
		}
		for i := range b {
			if used[i] || (i > 0 && b[i] == b[i-1] && !used[i-1]) {
				continue
			}
			used[i] = true
			cur = append(cur, b[i])
			rec()
			cur = cur[:len(cur)-1]
			used[i] = false
		}
	}
	rec()
	return out
}

func c08Changes(powers []int64) []c08Change {
	out := []c08Change{}
	for a := 0; a < c08N; a++ {
		for _, p := range powers {
			out = append(out, c08Change{A: a, P: p})
		}
	}
	return out
}

type c08State struct {
	Path  c08Path
	VS    *ValidatorSet // never mutated after insertion
	Depth int
	Root  int // index of the depth-1 ancestor (sharding), -1 at depth 0
}

// c08Search is the explicit-state search. level[d] is the operation alphabet tried in states of depth d
// (len(level) = maximal depth). Depth 0 and 1 are computed identically by every shard; below that a shard
// only descends from the depth-1 states it owns (own(idx)), with a shard-local visited set, so the sum over
// shards may count a deep state more than once (the evidence says so). visit is called once per state this
// shard is responsible for; it returns false to stop (budget).
func (e *c08Env) search(bases [][]int64, level [][]c08Op, own func(int) bool,
	visit func(s *c08State) bool, edge func()) (states, maxDepth int, complete bool) {
	visited := map[string]bool{}
	var queue []*c08State
	for _, b := range bases {
		vs := e.fresh(b)
		k := e.canon(vs)
		if visited[k] {
			continue
		}
		visited[k] = true
		queue = append(queue, &c08State{Path: c08Path{Base: b}, VS: vs, Root: -1})
	}
	nRoot := 0
	for qi := 0; qi < len(queue); qi++ {
		s := queue[qi]
		mine := true
		switch s.Depth {
		case 0:
			mine = own(qi)
		case 1:
			mine = own(s.Root)
		}
		if mine {
			states++
			if s.Depth > maxDepth {
				maxDepth = s.Depth
			}
			if !visit(s) {
				return states, maxDepth, false
			}
		}
		if s.Depth >= len(level) || (s.Depth >= 1 && !own(s.Root)) {
			queue[qi] = nil
			continue
		}
		for _, op := range level[s.Depth] {
			c := c08Clone(s.VS)
			if err := e.apply(c, op); err != nil {
				continue
			}
			if edge != nil && (s.Depth >= 1 || mine) {
				edge()
			}
			k := e.canon(c)
			if visited[k] {
				continue
			}
			visited[k] = true
			ops := append(append([]c08Op{}, s.Path.Ops...), op)
			n := &c08State{Path: c08Path{Base: s.Path.Base, Ops: ops}, VS: c, Depth: s.Depth + 1, Root: s.Root}
			if s.Depth == 0 {
				n.Root = nRoot
				nRoot++
			}
			queue = append(queue, n)
		}
		if s.Depth >= 1 {
			queue[qi] = nil // free
		}
	}
	return states, maxDepth, true
}

// c08Ops: the search alphabet = (every batch of at most k changes over the power menu) x (increment 0 or 1
// rounds afterwards), plus pure increments.
func c08Ops(powers []int64, k int, incs []int32) []c08Op {
	out := []c08Op{}
	c08Multisets(c08Changes(powers), k, func(b []c08Change) bool {
		for _, inc := range incs {
			if len(b) == 0 && inc == 0 {
				continue
			}
			out = append(out, c08Op{Batch: b, Inc: inc})
		}
		return true
	})
	return out
}

// c08AllBases: every power assignment over the menu (0 = absent) that is a legal set.
func c08AllBases(menu []int64) [][]int64 {
	out := [][]int64{}
	idx := make([]int, c08N)
	for {
		b := make([]int64, c08N)
		sum := new(big.Int)
		n := 0
		for i := range idx {
			b[i] = menu[idx[i]]
			sum.Add(sum, big.NewInt(b[i]))
			if b[i] != 0 {
				n++
			}
		}
		if n > 0 && sum.Cmp(big.NewInt(c08M)) <= 0 {
			out = append(out, b)
		}
		i := 0
		for ; i < c08N; i++ {
			idx[i]++
			if idx[i] < len(menu) {
				break
			}
			idx[i] = 0
		}
		if i == c08N {
			return out
		}
	}
}
