package types

// C08 part "updates": UpdateWithChangeSet over every batch of <= 3 changes on a 4-address universe, in every
// order, from (1) every legal fresh set over the power menu and (2) every state of a state-hash search over
// successive batches / proposer increments. Oracle: verdict and result independent of the order; a failed
// batch leaves the set deep-equal to a pre-copy (members, order, powers, priorities, proposer record); a
// successful batch yields exactly the members/powers of a map-based reference and satisfies the listed
// invariants; the priority arithmetic never leaves int64.

import (
	"fmt"
	"math"
	"os"
	"strconv"
	"testing"
	"time"

	"github.com/tendermint/tendermint/internal/verif/vr"
)

type c08UpdCase struct {
	Path  c08Path     `json:"path"`
	Batch []c08Change `json:"batch"`
}

func c08SafeUpdate(vs *ValidatorSet, ch []*Validator) (err error, panicked string) {
	defer func() {
		if x := recover(); x != nil {
			panicked = fmt.Sprint(x)
		}
	}()
	return vs.UpdateWithChangeSet(ch), ""
}

func c08SameMembers(a, b map[int]int64) bool {
	if len(a) != len(b) {
		return false
	}
	for k, v := range a {
		if w, ok := b[k]; !ok || w != v {
			return false
		}
	}
	return true
}

// checkBatch applies one batch in every order to clones of pre. r may be nil (confirmation runs).
func (e *c08Env) checkBatch(r *vr.Report, pre *ValidatorSet, batch []c08Change) (key, what, outcome string) {
	want, reject := c08RefBatch(e.members(pre), batch)
	var first *ValidatorSet
	var firstErr error
	var firstPerm []c08Change
	for pi, perm := range c08Perms(batch) {
		if r != nil {
			r.Traces++
		}
		c := c08Clone(pre)
		err, pan := c08SafeUpdate(c, e.vals(perm))
		if pan != "" {
			return "types/validator_set.go:UpdateWithChangeSet:panics", fmt.Sprintf("set %s, batch %v: panic %s", e.show(pre), perm, pan), ""
		}
		if err != nil {
			if d := c08Diff(pre, c); d != "" {
				return "types/validator_set.go:UpdateWithChangeSet:failed-batch-modified-set",
					fmt.Sprintf("set %s, batch %v fails (%v) but the set is now %s (%s)", e.show(pre), perm, err, e.show(c), d), ""
			}
		} else {
			if inv := e.invariants(c); inv != "" {
				return "types/validator_set.go:UpdateWithChangeSet:result-" + inv,
					fmt.Sprintf("set %s, batch %v accepted, result %s", e.show(pre), perm, e.show(c)), ""
			}
			if reject == "" && !c08SameMembers(e.members(c), want) {
				return "types/validator_set.go:UpdateWithChangeSet:result-differs-from-requested-changes",
					fmt.Sprintf("set %s, batch %v: result %s, reference members %v", e.show(pre), perm, e.show(c), want), ""
			}
		}
		if pi == 0 {
			first, firstErr, firstPerm = c, err, perm
			continue
		}
		if (err == nil) != (firstErr == nil) {
			return "types/validator_set.go:UpdateWithChangeSet:verdict-depends-on-order",
				fmt.Sprintf("set %s: order %v -> %v, order %v -> %v", e.show(pre), firstPerm, firstErr, perm, err), ""
		}
		if err == nil {
			if d := c08Diff(first, c); d != "" {
				return "types/validator_set.go:UpdateWithChangeSet:result-depends-on-order",
					fmt.Sprintf("set %s: order %v -> %s, order %v -> %s (%s)", e.show(pre), firstPerm, e.show(first), perm, e.show(c), d), ""
			}
		}
	}
	if firstErr != nil {
		if reject == "" && r != nil {
			r.Add("diag_rejects_applicable_batch", 1) // liveness-type; the statement allows failing
		}
		if reject == "" {
			return "", "", "fail:(reference would apply)"
		}
		return "", "", "fail:" + reject
	}
	if len(batch) == 0 {
		return "", "", "ok:empty-batch"
	}
	if reject != "" {
		if r != nil {
			r.Add("diag_accepts_"+reject, 1)
		}
		return "", "", "ok:(reference rejects " + reject + ")"
	}
	// priority arithmetic: unbounded reference; nothing may leave int64, nothing may sit on a clip value
	ref := e.refFrom(pre)
	ref.update(batch)
	if ref.Over != "" {
		return "types/validator_set.go:UpdateWithChangeSet:priority-arithmetic-exceeds-int64",
			fmt.Sprintf("set %s, batch %v: %s", e.show(pre), batch, ref.Over), ""
	}
	for _, v := range first.Validators {
		if v.ProposerPriority == math.MaxInt64 || v.ProposerPriority == math.MinInt64 {
			return "types/validator_set.go:UpdateWithChangeSet:priority-clipped",
				fmt.Sprintf("set %s, batch %v: result %s", e.show(pre), batch, e.show(first)), ""
		}
	}
	if r != nil && !e.samePrios(first, ref) {
		// not judged here: the rotation part judges the observable (proposer sequence after the update)
		r.Add("diag_update_priorities_differ_from_reference", 1)
	}
	adds, rems, chg := 0, 0, 0
	cur := e.members(pre)
	for _, c := range batch {
		_, in := cur[c.A]
		switch {
		case c.P == 0:
			rems++
		case in:
			chg++
		default:
			adds++
		}
	}
	return "", "", fmt.Sprintf("ok:add%d,rm%d,chg%d->n%d", adds, rems, chg, len(first.Validators))
}

func TestVerifC08Updates(t *testing.T) {
	r := vr.Start("C08", "updates", 80*time.Second, 18*time.Minute)
	defer r.Finish()
	r.Rule = "case = (state, multiset of <=3 changes), executed in every distinct order on clones of the state; states = every legal fresh set " +
		"over the power menu plus every state of a state-hash search (batch then 0/1 increments) merged on (members in order, powers, priorities, proposer record, cached total); " +
		"non-trivial = non-empty batch; distinct by (state, multiset) by construction"
	r.Assume("ValidatorSet is plain data: a deep clone (incl. cached total and proposer aliasing) of a reached state behaves like a replay of its path; violations are confirmed on a set rebuilt from the path")
	r.Assume("when a batch must be rejected is taken from the map reference only for classification; a rejection of an applicable batch is recorded as a diagnostic (the statement allows failing)")
	e := newC08Env()

	var rc c08UpdCase
	if rep, skip := r.ReplayCase(&rc); skip {
		return
	} else if rep {
		r.Eval()
		vs, err := e.build(rc.Path)
		if err != nil {
			panic(err)
		}
		if k, w, _ := e.checkBatch(r, vs, rc.Batch); k != "" {
			r.Violation(k, w, rc)
		}
		return
	}

	M := c08M
	menu := []int64{0, 1, 2, 5, M / 2, M - 3}               // 0 = remove / absent
	wide := []int64{-1, 0, 1, 2, 5, M / 2, M - 3, M, M + 1} // adds the illegal and the exact-limit powers
	wideCh := c08Changes(wide)
	// quick: triples only over the 7 legal-or-boundary powers, pairs over all 9; thorough: triples over all 9
	tripleCh := wideCh
	if !vr.Thorough() {
		tripleCh = c08Changes([]int64{0, 1, 2, 5, M / 2, M - 3, M})
	}
	own := func(i int) bool { return r.Mine(i) }
	stop := false
	nEval := 0

	var evalSet func(path c08Path, vs *ValidatorSet, changes []c08Change, k, minSize int) bool
	evalState := func(path c08Path, vs *ValidatorSet, k int) bool {
		if k <= 2 {
			return evalSet(path, vs, wideCh, k, 0)
		}
		return evalSet(path, vs, wideCh, 2, 0) && evalSet(path, vs, tripleCh, 3, 3)
	}
	evalSet = func(path c08Path, vs *ValidatorSet, changes []c08Change, k, minSize int) bool {
		ok := true
		c08Multisets(changes, k, func(b []c08Change) bool {
			if len(b) < minSize {
				return true
			}
			nEval++
			if nEval%2048 == 0 && r.Deadline("updates: batches x states") {
				ok = false
				return false
			}
			r.Eval()
			if len(b) > 0 {
				r.NTCount(1)
			}
			key, what, out := e.checkBatch(r, vs, b)
			if key != "" {
				cs := c08UpdCase{Path: path, Batch: b}
				if !vr.Confirm(3, fmt.Errorf("%s", key), func() error {
					v2, err := e.build(path)
					if err != nil {
						return err
					}
					k2, _, _ := e.checkBatch(nil, v2, b)
					if k2 == "" {
						return nil
					}
					return fmt.Errorf("%s", k2)
				}) {
					panic(fmt.Sprintf("C08 updates: case does not reproduce from its path: %+v", cs))
				}
				r.Violation(key, what, cs)
				return true
			}
			r.Outcome(out)
			return true
		})
		return ok
	}

	// phase 1: every legal fresh set over the menu x every batch of <= 3 changes over the wide menu
	bases := c08AllBases(menu)
	if r.Shard == 0 {
		r.Set("fresh_sets", int64(len(bases)))
	}
	done1 := 0
	// phase 1 may use at most 55% of the part's budget, so that a loaded machine still reaches the search
	t0, share := time.Now(), time.Duration(vr.Pick(44, 600))*time.Second
	if v, err := strconv.Atoi(os.Getenv("VERIF_BUDGET_S")); err == nil {
		share = time.Duration(v) * time.Second * 55 / 100
	}
	phase1Complete := true
	for i, b := range bases {
		if !own(i) {
			continue
		}
		if time.Since(t0) > share {
			r.Cap("updates: phase 1 (fresh sets) stopped at its share of the time budget")
			phase1Complete = false
			break
		}
		if !evalState(c08Path{Base: b}, e.fresh(b), 3) {
			stop = true
			break
		}
		done1++
		if i%97 == 0 {
			r.Sample(map[string]interface{}{"phase": "fresh", "base": b, "set": e.show(e.fresh(b)), "batches": "all multisets of <=3 changes, every order"})
		}
	}
	r.Add("phase1_fresh_sets_done", int64(done1))

	// phase 2: state-hash search. Depth 0: 6 skewed bases; alphabet per depth below.
	seeds := [][]int64{{1, 0, 0, 0}, {5, 1, 0, 0}, {1, 2, 5, 0}, {2, 2, 2, 2}, {M / 2, 1, 0, 5}, {M - 3, 0, 1, 2}}
	levels := [][]c08Op{
		c08Ops(menu, 2, []int32{0, 1}),
		c08Ops(menu, 1, []int32{1}),
	}
	if vr.Thorough() {
		levels = [][]c08Op{
			c08Ops(menu, 2, []int32{0, 1}),
			c08Ops(menu, 1, []int32{0, 1}),
			c08Ops(menu, 1, []int32{1}),
		}
	}
	fullDepth := vr.Pick(0, 1) // states up to this depth get batches of <= 3 changes, deeper ones <= 2
	if !stop {
		st, md, complete := e.search(seeds, levels, own, func(s *c08State) bool {
			k := 2
			if s.Depth <= fullDepth {
				k = 3
			}
			if len(s.Path.Ops) > 0 && r.States%1500 == 7 {
				r.Sample(map[string]interface{}{"phase": "search", "path": s.Path, "set": e.show(s.VS), "batches": fmt.Sprintf("all multisets of <=%d changes, every order", k)})
			}
			r.States++
			return evalState(s.Path, s.VS, k)
		}, func() { r.Transitions++ })
		r.MaxDepth = md
		_ = st
		if complete && phase1Complete {
			r.Bound = fmt.Sprintf("fresh sets: all %d over menu %v x all batches <=2 of %d changes (powers %v) and all triples of %d changes, every order; search: %d seeds, depth %d, alphabets %v ops per depth, batches <=3 up to depth %d and <=2 below",
				len(bases), menu, len(wideCh), wide, len(tripleCh), len(seeds), len(levels), c08LevelSizes(levels), fullDepth)
		}
	}
}

func c08LevelSizes(l [][]c08Op) []int {
	out := []int{}
	for _, x := range l {
		out = append(out, len(x))
	}
	return out
}
