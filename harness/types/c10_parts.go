package types

// C10 (part-set half) — a part set accepts a part at position i only if it is the i-th piece of the
// data committed to by the header's root and part count, so a completed part set always
// reassembles to exactly the original bytes and the original block hash.
//
// Everything runs on the real NewPartSetFromData / NewPartSetFromHeader / AddPart / IsComplete /
// GetReader (and, where flagged, Part.ToProto -> PartFromProto -> ValidateBasic, the path a
// BlockPartMessage takes). The reference is the harness's own split of the data plus a position
// model (which bytes have been admitted at which slot); it never consults a hash to decide.
//
// A case is (data configuration, sequence of messages). Judged per delivery:
//   admitted at position i  =>  message bytes == reference piece i                 (statement, 1st half)
//   set reports complete    =>  every slot was filled by an admitted part, the reader returns
//                               exactly the original bytes, and re-splitting those bytes gives
//                               the original header (for the real-block profile: the decoded
//                               block has the original block hash)                   (statement, 2nd half)
// Not judged (diagnostics only): rejection of a genuine part, acceptance of the right piece under
// an aliased proof label, refusal of the genuine part after its slot was poisoned.

import (
	"bytes"
	"crypto/sha256"
	"encoding/binary"
	"fmt"
	"io"
	"math"
	"sort"
	"strings"
	"testing"
	"time"

	"github.com/gogo/protobuf/proto"

	"github.com/tendermint/tendermint/crypto/merkle"
	"github.com/tendermint/tendermint/internal/verif/vr"
	tmproto "github.com/tendermint/tendermint/proto/tendermint/types"
)

// ---------------------------------------------------------------------------------------------
// configurations and reference

type c10Cfg struct {
	PartSize uint32 `json:"part_size"`
	Len      int    `json:"len"`
	Profile  int    `json:"profile"` // 0 distinct bytes, 1 constant bytes, 2 periodic (piece0==piece2==..), 3 real block (Len = tx payload bytes)
}

type c10Msg struct {
	Index    uint32   `json:"index"`
	Bytes    []byte   `json:"bytes"`
	PIndex   int64    `json:"proof_index"`
	PTotal   int64    `json:"proof_total"`
	LeafHash []byte   `json:"leaf_hash"`
	Aunts    [][]byte `json:"aunts"`
	Wire     bool     `json:"wire,omitempty"` // pass through ToProto/PartFromProto(ValidateBasic) before AddPart
	Desc     string   `json:"desc,omitempty"`
}

type c10Case struct {
	Cfg    c10Cfg   `json:"cfg"`
	Family string   `json:"family"`
	Seq    []c10Msg `json:"seq"`
}

type c10Node struct {
	hash, left, right []byte
	up                [][]byte // aunts from this node's sibling upward
	lo, hi            int
}

type c10Env struct {
	cfg       c10Cfg
	data      []byte
	pieces    [][]byte
	total     uint32
	sender    *PartSet
	header    PartSetHeader
	blockHash []byte // profile 3
	// reference tree over the reference pieces
	refRoot  []byte
	refLeaf  [][]byte
	refAunts [][][]byte
	inner    []c10Node
	pool     [][]byte
	agrees   bool // sender's root/proofs equal the reference
	sendErr  string
}

func c10Sum(bs ...[]byte) []byte {
	h := sha256.New()
	for _, b := range bs {
		h.Write(b)
	}
	return h.Sum(nil)
}

func c10Cl(b []byte) []byte {
	if b == nil {
		return nil
	}
	return append([]byte{}, b...)
}

func c10ClL(l [][]byte) [][]byte {
	if l == nil {
		return nil
	}
	o := make([][]byte, len(l))
	for i := range l {
		o[i] = c10Cl(l[i])
	}
	return o
}

func c10SplitPoint(n int) int {
	p := 1
	for p*2 < n {
		p *= 2
	}
	return p
}

func c10Data(cfg c10Cfg) (data []byte, blockHash []byte) {
	switch cfg.Profile {
	case 0:
		data = make([]byte, cfg.Len)
		for k := range data {
			data[k] = byte(k + 1)
		}
	case 1:
		data = bytes.Repeat([]byte{0xAB}, cfg.Len)
	case 2:
		data = make([]byte, cfg.Len)
		per := 2 * int(cfg.PartSize)
		for k := range data {
			data[k] = byte(k%per + 1)
		}
	case 3:
		// a real block whose transactions carry cfg.Len payload bytes, marshalled the way MakePartSet does
		ts := time.Date(2022, 3, 4, 5, 6, 7, 0, time.UTC)
		h32 := func(s string) []byte { return c10Sum([]byte(s)) }
		lastID := BlockID{Hash: h32("last"), PartSetHeader: PartSetHeader{Total: 1, Hash: h32("lastparts")}}
		commit := &Commit{Height: 2, Round: 0, BlockID: lastID, Signatures: []CommitSig{{BlockIDFlag: BlockIDFlagCommit,
			ValidatorAddress: h32("val")[:20], Timestamp: ts, Signature: append(h32("sig1"), h32("sig2")...)}}}
		txs := []Tx{}
		x := uint32(12345)
		for left := cfg.Len; left > 0; {
			n := 50000
			if n > left {
				n = left
			}
			tx := make([]byte, n)
			for k := range tx {
				x = x*1664525 + 1013904223
				tx[k] = byte(x >> 24)
			}
			txs = append(txs, tx)
			left -= n
		}
		b := MakeBlock(3, txs, commit, nil)
		b.ChainID = "verif-c10"
		b.Time = ts
		b.LastBlockID = lastID
		b.ValidatorsHash, b.NextValidatorsHash, b.ConsensusHash = h32("vals"), h32("nextvals"), h32("cons")
		b.AppHash, b.LastResultsHash, b.ProposerAddress = h32("app"), h32("res"), h32("val")[:20]
		pb, err := b.ToProto()
		if err != nil {
			panic(err)
		}
		bz, err := proto.Marshal(pb)
		if err != nil {
			panic(err)
		}
		return bz, b.Hash()
	}
	return data, nil
}

func c10NewEnv(cfg c10Cfg) *c10Env {
	e := &c10Env{cfg: cfg}
	e.data, e.blockHash = c10Data(cfg)
	ps := int(cfg.PartSize)
	for off := 0; off < len(e.data); off += ps {
		end := off + ps
		if end > len(e.data) {
			end = len(e.data)
		}
		e.pieces = append(e.pieces, e.data[off:end])
	}
	e.total = uint32(len(e.pieces))
	func() {
		defer func() {
			if x := recover(); x != nil {
				e.sendErr = fmt.Sprint(x)
			}
		}()
		e.sender = NewPartSetFromData(c10Cl(e.data), cfg.PartSize)
		e.header = e.sender.Header()
	}()
	// reference tree
	n := len(e.pieces)
	e.refLeaf = make([][]byte, n)
	e.refAunts = make([][][]byte, n)
	for i := range e.pieces {
		e.refLeaf[i] = c10Sum([]byte{0}, e.pieces[i])
	}
	var rec func(lo, hi int, up [][]byte) []byte
	rec = func(lo, hi int, up [][]byte) []byte {
		if hi-lo == 1 {
			a := make([][]byte, len(up))
			for k := range up {
				a[len(up)-1-k] = up[k]
			}
			e.refAunts[lo] = a
			return e.refLeaf[lo]
		}
		k := c10SplitPoint(hi - lo)
		// hashes of the children are needed before descending with them as aunts
		var hashOf func(lo, hi int) []byte
		hashOf = func(lo, hi int) []byte {
			if hi-lo == 1 {
				return e.refLeaf[lo]
			}
			k := c10SplitPoint(hi - lo)
			return c10Sum([]byte{1}, hashOf(lo, lo+k), hashOf(lo+k, hi))
		}
		l, r := hashOf(lo, lo+k), hashOf(lo+k, hi)
		rev := make([][]byte, len(up))
		for i := range up {
			rev[len(up)-1-i] = up[i]
		}
		h := c10Sum([]byte{1}, l, r)
		e.inner = append(e.inner, c10Node{hash: h, left: l, right: r, up: rev, lo: lo, hi: hi})
		rec(lo, lo+k, append(append([][]byte{}, up...), r))
		rec(lo+k, hi, append(append([][]byte{}, up...), l))
		return h
	}
	if n == 0 {
		e.refRoot = c10Sum()
	} else {
		e.refRoot = rec(0, n, nil)
	}
	seen := map[string]bool{}
	add := func(h []byte) {
		if !seen[string(h)] {
			seen[string(h)] = true
			e.pool = append(e.pool, h)
		}
	}
	for _, h := range e.refLeaf {
		add(h)
	}
	for _, in := range e.inner {
		add(in.hash)
	}
	e.agrees = e.sender != nil && bytes.Equal(e.header.Hash, e.refRoot) && e.header.Total == e.total
	for i := 0; e.agrees && i < n; i++ {
		p := e.sender.GetPart(i)
		e.agrees = p != nil && p.Proof.Index == int64(i) && p.Proof.Total == int64(n) && bytes.Equal(p.Proof.LeafHash, e.refLeaf[i]) &&
			len(p.Proof.Aunts) == len(e.refAunts[i])
		for k := 0; e.agrees && k < len(p.Proof.Aunts); k++ {
			e.agrees = bytes.Equal(p.Proof.Aunts[k], e.refAunts[i][k])
		}
	}
	return e
}

// genuine message for position i, taken from the REAL sender (what an honest proposer gossips)
func (e *c10Env) genuine(i int) c10Msg {
	p := e.sender.GetPart(i)
	return c10Msg{Index: p.Index, Bytes: c10Cl(p.Bytes), PIndex: p.Proof.Index, PTotal: p.Proof.Total, LeafHash: c10Cl(p.Proof.LeafHash),
		Aunts: c10ClL(p.Proof.Aunts), Desc: fmt.Sprintf("genuine part %d", i)}
}

type c10Viol struct{ key, what string }

func c10ReadAll(ps *PartSet) (bz []byte, err error) {
	defer func() {
		if x := recover(); x != nil {
			err = fmt.Errorf("panic: %v", x)
		}
	}()
	return io.ReadAll(ps.GetReader())
}

// construct judges the sender-side half: NewPartSetFromData yields a complete set whose i-th part is the i-th piece
// and which reassembles to the data.
func (e *c10Env) construct(r *vr.Report) []c10Viol {
	var vs []c10Viol
	cfgs := fmt.Sprintf("partSize=%d len=%d profile=%d", e.cfg.PartSize, len(e.data), e.cfg.Profile)
	if e.sender == nil {
		return []c10Viol{{"types/part_set.go:NewPartSetFromData:panics", cfgs + ": " + e.sendErr}}
	}
	if e.sender.Total() != e.total || !e.sender.IsComplete() || e.sender.Count() != e.total {
		vs = append(vs, c10Viol{"types/part_set.go:NewPartSetFromData:wrong-part-count", fmt.Sprintf("%s: total=%d count=%d complete=%v, reference split has %d pieces",
			cfgs, e.sender.Total(), e.sender.Count(), e.sender.IsComplete(), e.total)})
		return vs
	}
	for i := 0; i < int(e.total); i++ {
		p := e.sender.GetPart(i)
		if p == nil || p.Index != uint32(i) || !bytes.Equal(p.Bytes, e.pieces[i]) {
			vs = append(vs, c10Viol{"types/part_set.go:NewPartSetFromData:part-is-not-ith-piece", fmt.Sprintf("%s: part %d = %v, reference piece %X", cfgs, i, p, e.pieces[i])})
			return vs
		}
	}
	if e.total == 0 {
		// zero parts: nothing was accepted and there is nothing to reassemble; GetReader panics (parts[0]).
		if _, err := c10ReadAll(e.sender); err != nil {
			r.Add("diag_empty_data_getreader_panics", 1)
		}
		return vs
	}
	bz, err := c10ReadAll(e.sender)
	if err != nil || !bytes.Equal(bz, e.data) {
		vs = append(vs, c10Viol{"types/part_set.go:PartSet:complete-set-reassembles-wrong-bytes:from-data", fmt.Sprintf("%s: reader gives %X (err %v), data %X", cfgs, c10Short(bz), err, c10Short(e.data))})
	}
	if !e.agrees {
		r.Add("diag_sender_tree_differs_from_reference", 1)
	}
	if int64(len(e.data)) != e.sender.ByteSize() {
		r.Add("diag_bytesize_mismatch", 1)
	}
	return vs
}

func c10Short(b []byte) []byte {
	if len(b) > 48 {
		return b[:48]
	}
	return b
}

// runSeq delivers seq to a fresh receiver built from the real header and judges every step from judgeFrom on.
// It returns the violations, the position model (admitted bytes per slot) and the outcome class of each step.
func (e *c10Env) runSeq(r *vr.Report, seq []c10Msg, judgeFrom int) (vs []c10Viol, model [][]byte, classes []string) {
	recv := NewPartSetFromHeader(e.header)
	model = make([][]byte, e.total)
	filled := 0
	cause := "" // classification of the first wrong admission
	cfgs := fmt.Sprintf("partSize=%d len=%d profile=%d total=%d", e.cfg.PartSize, len(e.data), e.cfg.Profile, e.total)
	for step, m := range seq {
		judge := step >= judgeFrom
		part := &Part{Index: m.Index, Bytes: c10Cl(m.Bytes), Proof: merkle.Proof{Total: m.PTotal, Index: m.PIndex, LeafHash: c10Cl(m.LeafHash), Aunts: c10ClL(m.Aunts)}}
		class := ""
		if m.Wire {
			pb, err := part.ToProto()
			if err == nil {
				part, err = PartFromProto(pb)
			}
			if err != nil {
				classes = append(classes, "reject:wire-validate")
				continue
			}
		}
		var added bool
		var err error
		func() {
			defer func() {
				if x := recover(); x != nil {
					err = fmt.Errorf("panic: %v", x)
					class = "panic"
				}
			}()
			added, err = recv.AddPart(part)
		}()
		if class == "panic" {
			// a panic is not an admission: outside the statement, recorded as a diagnostic
			if judge {
				r.Add("diag_addpart_panics", 1)
				r.Note(fmt.Sprintf("AddPart panicked: %s step %d (%s): %v", cfgs, step, m.Desc, err))
			}
			classes = append(classes, class)
			continue
		}
		isGenuinePiece := m.Index < e.total && bytes.Equal(m.Bytes, e.pieces[m.Index])
		labelBound := m.PIndex == int64(m.Index) && m.PTotal == int64(e.total)
		switch {
		case added && m.Index >= e.total:
			class = "added:out-of-range"
			if judge {
				vs = append(vs, c10Viol{"types/part_set.go:AddPart:admits-out-of-range-index", fmt.Sprintf("%s step %d: part index %d admitted", cfgs, step, m.Index)})
			}
		case added:
			if model[m.Index] != nil {
				// re-admission by itself is not forbidden by the statement (the content check below and the
				// completeness check after the step are); recorded as a diagnostic
				if judge {
					r.Add("diag_admitted_over_existing_part", 1)
				}
			} else {
				filled++
			}
			model[m.Index] = c10Cl(m.Bytes)
			if isGenuinePiece {
				class = "added:right-piece"
				if !labelBound {
					class = "added:right-piece-unbound-label(diag)"
					r.Add("diag_right_piece_admitted_with_unbound_proof_label", 1)
				}
			} else {
				c := "admits-wrong-piece"
				if m.PIndex != int64(m.Index) {
					c = "proof-index-not-bound"
				} else if m.PTotal != int64(e.total) {
					c = "proof-total-not-bound"
				}
				class = "added:WRONG-PIECE:" + c
				if cause == "" {
					cause = c
				}
				if judge {
					vs = append(vs, c10Viol{"types/part_set.go:AddPart:" + c, fmt.Sprintf(
						"%s step %d: AddPart admitted at position %d bytes %X, but the %d-th piece of the committed data is %X (part.Index=%d, proof.Index=%d, proof.Total=%d, wire-validated=%v; %s)",
						cfgs, step, m.Index, c10Short(m.Bytes), m.Index, c10Short(e.pieces[m.Index]), m.Index, m.PIndex, m.PTotal, m.Wire, m.Desc)})
				}
			}
		case err == nil:
			class = "refused:slot-occupied"
			if m.Index < e.total && model[m.Index] == nil {
				class = "refused:silently(diag)"
				r.Add("diag_silent_refusal_on_empty_slot", 1)
			} else if isGenuinePiece && m.Index < e.total && !bytes.Equal(model[m.Index], m.Bytes) {
				class = "refused:genuine-after-poison(diag)"
				r.Add("diag_genuine_part_refused_after_slot_poisoned", 1)
			}
		case err == ErrPartSetUnexpectedIndex:
			class = "reject:index"
		case err == ErrPartSetInvalidProof:
			class = "reject:proof"
			if isGenuinePiece && labelBound && e.agrees && bytes.Equal(m.LeafHash, e.refLeaf[m.Index]) && c10EqL(m.Aunts, e.refAunts[m.Index]) {
				class = "reject:GENUINE(diag)"
				r.Add("diag_genuine_part_rejected", 1)
			}
		default:
			class = "reject:other"
		}
		classes = append(classes, class)
		// set-level judgement after every delivery
		if recv.IsComplete() && e.total > 0 {
			if filled != int(e.total) {
				if judge {
					vs = append(vs, c10Viol{"types/part_set.go:PartSet:complete-with-missing-part", fmt.Sprintf("%s step %d: IsComplete()==true with %d of %d positions admitted", cfgs, step, filled, e.total)})
				}
				continue
			}
			if !judge {
				continue
			}
			bz, rerr := c10ReadAll(recv)
			if rerr != nil || !bytes.Equal(bz, e.data) {
				c := cause
				if c == "" {
					c = "reader"
				}
				vs = append(vs, c10Viol{"types/part_set.go:PartSet:complete-set-reassembles-wrong-bytes:" + c, fmt.Sprintf(
					"%s: after %d deliveries the set is complete and GetReader returns %X… (len %d, err %v) instead of the original %X… (len %d)",
					cfgs, step+1, c10Short(bz), len(bz), rerr, c10Short(e.data), len(e.data))})
				continue
			}
			if h2 := NewPartSetFromData(bz, e.cfg.PartSize).Header(); !h2.Equals(e.header) {
				vs = append(vs, c10Viol{"types/part_set.go:PartSet:reassembled-bytes-hash-to-other-header", fmt.Sprintf("%s: %v vs %v", cfgs, h2, e.header)})
			}
			if e.blockHash != nil {
				pbb := new(tmproto.Block)
				var blk *Block
				err := proto.Unmarshal(bz, pbb)
				if err == nil {
					blk, err = BlockFromProto(pbb)
				}
				if err != nil || !bytes.Equal(blk.Hash(), e.blockHash) {
					vs = append(vs, c10Viol{"types/part_set.go:PartSet:reassembled-block-has-other-hash", fmt.Sprintf("%s: err=%v", cfgs, err)})
				} else {
					r.Add("real_block_reassembled_with_original_hash", 1)
				}
			}
		} else if filled == int(e.total) && e.total > 0 {
			r.Add("diag_all_slots_filled_but_incomplete", 1)
		}
		ones := 0
		for q, ba := 0, recv.BitArray(); q < int(e.total); q++ {
			if ba.GetIndex(q) {
				ones++
			}
		}
		if int(recv.Count()) != filled || ones != filled {
			r.Add("diag_count_or_bitarray_deviates_from_model", 1)
		}
	}
	return vs, model, classes
}

func c10EqL(a, b [][]byte) bool {
	if len(a) != len(b) {
		return false
	}
	for i := range a {
		if !bytes.Equal(a[i], b[i]) {
			return false
		}
	}
	return true
}

func (c *c10Case) id() uint64 {
	h := sha256.New()
	var b [8]byte
	u := func(x uint64) { binary.LittleEndian.PutUint64(b[:], x); h.Write(b[:]) }
	w := func(x []byte) {
		if x == nil {
			u(math.MaxUint64)
			return
		}
		u(uint64(len(x)))
		h.Write(x)
	}
	u(uint64(c.Cfg.PartSize))
	u(uint64(c.Cfg.Len))
	u(uint64(c.Cfg.Profile))
	u(uint64(len(c.Seq)))
	for _, m := range c.Seq {
		u(uint64(m.Index))
		u(uint64(m.PIndex))
		u(uint64(m.PTotal))
		if m.Wire {
			u(1)
		} else {
			u(0)
		}
		w(m.Bytes)
		w(m.LeafHash)
		if m.Aunts == nil {
			u(math.MaxUint64)
		} else {
			u(uint64(len(m.Aunts)))
		}
		for _, a := range m.Aunts {
			w(a)
		}
	}
	return binary.LittleEndian.Uint64(h.Sum(nil)[:8])
}

// ---------------------------------------------------------------------------------------------
// message families

func c10Flip(b []byte, pos int, mask byte) []byte {
	o := c10Cl(b)
	o[pos] ^= mask
	return o
}

func c10WithA(aunts [][]byte, k int, v []byte) [][]byte {
	o := append([][]byte{}, aunts...)
	o[k] = v
	return o
}

// mutations yields every mutated message derived from genuine part i (see the family list in the rule).
func (e *c10Env) mutations(i int, thorough bool, f func(fam string, m c10Msg)) {
	g := e.genuine(i)
	n := int(e.total)
	T := int64(2*n + 3)
	if thorough {
		T = int64(4*n + 6)
	}
	positions := []uint32{}
	for j := 0; j <= n+1; j++ {
		positions = append(positions, uint32(j))
	}
	positions = append(positions, 1<<31, math.MaxUint32)
	mk := func(fam, desc string, idx uint32, bz []byte, pi, pt int64, lh []byte, aunts [][]byte) {
		f(fam, c10Msg{Index: idx, Bytes: bz, PIndex: pi, PTotal: pt, LeafHash: lh, Aunts: aunts, Desc: desc})
	}
	// M1: (part.Index, proof.Index, proof.Total) grid with the genuine bytes / leaf hash / aunts
	for _, idx := range positions {
		for pt := int64(-1); pt <= T; pt++ {
			for pi := int64(-1); pi <= pt+1; pi++ {
				mk("label-grid", fmt.Sprintf("bytes+leafhash+aunts of part %d with part.Index=%d proof.Index=%d proof.Total=%d", i, idx, pi, pt), idx, g.Bytes, pi, pt, g.LeafHash, g.Aunts)
			}
		}
		for _, pt := range []int64{1 << 32, 1<<32 + int64(n), math.MaxInt64} {
			for _, pi := range []int64{0, int64(i), int64(idx), pt - 1, pt - int64(n-i)} {
				mk("label-grid", fmt.Sprintf("bytes+leafhash+aunts of part %d with part.Index=%d proof.Index=%d proof.Total=%d", i, idx, pi, pt), idx, g.Bytes, pi, pt, g.LeafHash, g.Aunts)
			}
		}
	}
	// M2: transplants: bytes of part i, proof of part b, presented at position c (i is the outer loop of the caller)
	for b := 0; b < n; b++ {
		gb := e.genuine(b)
		for c := 0; c < n; c++ {
			mk("transplant", fmt.Sprintf("bytes of part %d, proof of part %d (label kept), presented at position %d", i, b, c), uint32(c), g.Bytes, gb.PIndex, gb.PTotal, gb.LeafHash, gb.Aunts)
			mk("transplant", fmt.Sprintf("bytes of part %d, proof of part %d relabelled to the position, presented at position %d", i, b, c), uint32(c), g.Bytes, int64(c), int64(n), gb.LeafHash, gb.Aunts)
			mk("transplant", fmt.Sprintf("bytes of part %d, own leaf hash, aunts of part %d, presented at position %d", i, b, c), uint32(c), g.Bytes, int64(c), int64(n), g.LeafHash, gb.Aunts)
		}
	}
	// M3: single-field mutations, presented at every position j with proof.Index in {i, j}
	for j := 0; j < n; j++ {
		for _, pi := range []int64{int64(i), int64(j)} {
			if j == i && pi != int64(i) {
				continue
			}
			m := func(desc string, bz, lh []byte, aunts [][]byte) {
				mk("mutation", fmt.Sprintf("part %d at position %d (proof.Index=%d): %s", i, j, pi, desc), uint32(j), bz, pi, g.PTotal, lh, aunts)
			}
			bz, lh, aunts := g.Bytes, g.LeafHash, g.Aunts
			for p := range bz {
				m(fmt.Sprintf("byte %d ^1", p), c10Flip(bz, p, 1), lh, aunts)
				m(fmt.Sprintf("byte %d ^0x80", p), c10Flip(bz, p, 0x80), lh, aunts)
			}
			m("last byte dropped", bz[:len(bz)-1], lh, aunts)
			m("first byte dropped", bz[1:], lh, aunts)
			m("0x00 appended", append(c10Cl(bz), 0), lh, aunts)
			m("0x00 prepended", append([]byte{0}, bz...), lh, aunts)
			m("bytes nil", nil, lh, aunts)
			m("bytes = leaf hash", lh, lh, aunts)
			for _, b2 := range [][]byte{append(c10Cl(bz), 0), append([]byte{0}, bz...), bz[:len(bz)-1], nil} {
				m("bytes mutated, leaf hash recomputed", b2, c10Sum([]byte{0}, b2), aunts)
			}
			for p := range lh {
				m(fmt.Sprintf("leaf hash byte %d ^1", p), bz, c10Flip(lh, p, 1), aunts)
			}
			m("leaf hash nil", bz, nil, aunts)
			m("leaf hash truncated", bz, lh[:31], aunts)
			m("leaf hash = sha256(bytes) without prefix", bz, c10Sum(bz), aunts)
			for pi2, ph := range e.pool {
				m(fmt.Sprintf("leaf hash = node hash #%d", pi2), bz, ph, aunts)
			}
			for k := range aunts {
				for p := 0; p < len(aunts[k]); p++ {
					m(fmt.Sprintf("aunt %d byte %d ^1", k, p), bz, lh, c10WithA(aunts, k, c10Flip(aunts[k], p, 1)))
				}
				for pi2, ph := range e.pool {
					m(fmt.Sprintf("aunt %d = node hash #%d", k, pi2), bz, lh, c10WithA(aunts, k, ph))
				}
				m(fmt.Sprintf("aunt %d truncated", k), bz, lh, c10WithA(aunts, k, aunts[k][:31]))
				m(fmt.Sprintf("aunt %d nil", k), bz, lh, c10WithA(aunts, k, nil))
				m(fmt.Sprintf("aunt %d dropped", k), bz, lh, append(append([][]byte{}, aunts[:k]...), aunts[k+1:]...))
				m(fmt.Sprintf("aunt %d duplicated", k), bz, lh, append(append(append([][]byte{}, aunts[:k+1]...), aunts[k]), aunts[k+1:]...))
				for k2 := k + 1; k2 < len(aunts); k2++ {
					sw := append([][]byte{}, aunts...)
					sw[k], sw[k2] = sw[k2], sw[k]
					m(fmt.Sprintf("aunts %d,%d swapped", k, k2), bz, lh, sw)
				}
			}
			for pos := 0; pos <= len(aunts); pos++ {
				for pi2, ph := range append(append([][]byte{}, e.pool...), []byte{}) {
					m(fmt.Sprintf("node hash #%d inserted at aunt position %d", pi2, pos), bz, lh, append(append(append([][]byte{}, aunts[:pos]...), ph), aunts[pos:]...))
				}
			}
			m("aunts nil", bz, lh, nil)
		}
	}
}

// innerAsLeaf yields messages that present an inner node of the tree as a part.
func (e *c10Env) innerAsLeaf(thorough bool, f func(fam string, m c10Msg)) {
	n := int(e.total)
	T := int64(2*n + 3)
	for vi, v := range e.inner {
		lr := append(c10Cl(v.left), v.right...)
		for bi, bz := range [][]byte{lr, append([]byte{1}, lr...)} {
			for li, lh := range [][]byte{v.hash, c10Sum([]byte{0}, bz)} {
				for j := 0; j < n; j++ {
					for pt := int64(1); pt <= T; pt++ {
						for pi := int64(0); pi < pt; pi++ {
							f("inner-as-leaf", c10Msg{Index: uint32(j), Bytes: bz, PIndex: pi, PTotal: pt, LeafHash: lh, Aunts: v.up,
								Desc: fmt.Sprintf("inner node #%d over pieces [%d,%d) as a part (bytes shape %d, leaf hash shape %d) at position %d, proof label (%d,%d)", vi, v.lo, v.hi, bi, li, j, pi, pt)})
						}
					}
				}
			}
		}
	}
}

// ---------------------------------------------------------------------------------------------

type c10Driver struct {
	r    *vr.Report
	seen map[uint64]struct{}
	gen  int
	stop bool
	envs map[c10Cfg]*c10Env
}

func (d *c10Driver) env(cfg c10Cfg) *c10Env {
	if e, ok := d.envs[cfg]; ok {
		return e
	}
	if len(d.envs) > 64 {
		d.envs = map[c10Cfg]*c10Env{}
	}
	e := c10NewEnv(cfg)
	d.envs[cfg] = e
	return e
}

func c10Report(r *vr.Report, e *c10Env, c *c10Case, vs []c10Viol, rerun func() []c10Viol) {
	if len(vs) == 0 {
		return
	}
	keys := func(vs []c10Viol) string {
		ks := []string{}
		for _, v := range vs {
			ks = append(ks, v.key)
		}
		sort.Strings(ks)
		return strings.Join(ks, "|")
	}
	first := fmt.Errorf("%s", keys(vs))
	if !vr.Confirm(3, first, func() error {
		v2 := rerun()
		if len(v2) == 0 {
			return nil
		}
		return fmt.Errorf("%s", keys(v2))
	}) {
		panic("C10 parts harness nondeterministic on " + fmt.Sprintf("%+v", c.Cfg))
	}
	for _, v := range vs {
		r.Violation(v.key, v.what, c)
	}
}

// try executes one sequence case (deduplicated by content, sharded by content hash).
func (d *c10Driver) try(e *c10Env, fam string, seq []c10Msg, trivial bool) {
	if d.stop {
		return
	}
	d.gen++
	if d.gen%2048 == 0 && d.r.Deadline(fmt.Sprintf("C10 part deliveries (family %s, cfg %+v)", fam, e.cfg)) {
		d.stop = true
		return
	}
	c := &c10Case{Cfg: e.cfg, Family: fam, Seq: seq}
	id := c.id()
	if !d.r.Mine(int(id & 0x3fffffff)) {
		return
	}
	if _, dup := d.seen[id]; dup {
		d.r.Add("duplicate_cases_skipped", 1)
		return
	}
	d.seen[id] = struct{}{}
	r := d.r
	r.Eval()
	if !trivial {
		r.NTCount(1)
	}
	vs, _, classes := e.runSeq(r, seq, 0)
	c10Report(r, e, c, vs, func() []c10Viol { v, _, _ := e.runSeq(r, seq, 0); return v })
	last := "none"
	if len(classes) > 0 {
		last = classes[len(classes)-1]
	}
	r.Outcome("last-delivery:" + last)
	r.Outcome("family:" + fam)
	if len(d.seen)%60000 == 1 || (len(vs) > 0 && len(r.Samples) < 4) {
		r.Sample(map[string]interface{}{"cfg": e.cfg, "family": fam, "steps": len(seq), "last": seq[len(seq)-1].Desc, "classes": classes})
	}
}

func TestVerifC10Parts(t *testing.T) {
	r := vr.Start("C10", "parts", 110*time.Second, 22*time.Minute)
	defer r.Finish()
	r.Rule = "per data configuration (part size, length, content profile): (construct) NewPartSetFromData vs the reference split; (orders) every delivery sequence with repetition of genuine parts up to length total+2; " +
		"(label-grid/transplant/mutation/inner-as-leaf) every mutated message derived from every genuine part, delivered to an empty receiver, to a receiver holding all other genuine parts, and to the latter through the wire validation; " +
		"(bfs) closure of the receiver's position-state space under an alphabet of genuine, relabelled, corrupted and cross-proof parts; cases are deduplicated by content hash; non-trivial = anything but in-order genuine delivery"
	r.Assume("SHA-256 collision resistance; the reference split and position model are the harness's own; genuine parts/headers are those the real NewPartSetFromData produces (compared with the reference per configuration)")
	r.Assume("a receiver's future behaviour depends only on which bytes sit at which slot (AddPart reads total, hash, parts[i]==nil; IsComplete reads count; the reader reads parts[i].Bytes): bfs states are merged on that vector")
	thorough := vr.Thorough()
	d := &c10Driver{r: r, seen: map[uint64]struct{}{}, envs: map[c10Cfg]*c10Env{}}

	var rc c10Case
	if rep, skip := r.ReplayCase(&rc); skip {
		return
	} else if rep {
		e := c10NewEnv(rc.Cfg)
		r.Eval()
		vs := e.construct(r)
		if len(rc.Seq) > 0 {
			v2, _, _ := e.runSeq(r, rc.Seq, 0)
			vs = append(vs, v2...)
		}
		for _, v := range vs {
			r.Violation(v.key, v.what, rc)
		}
		return
	}

	// ---- 1. construct: all lengths 0..5*ps+1 for part sizes 4..8 (plus 1..3), 3 profiles
	nCfg := 0
	sizes := []uint32{4, 5, 6, 7, 8, 1, 2, 3}
	for _, ps := range sizes {
		for ln := 0; ln <= 5*int(ps)+1; ln++ {
			for prof := 0; prof < 3; prof++ {
				nCfg++
				if !r.Mine(nCfg) {
					continue
				}
				e := c10NewEnv(c10Cfg{ps, ln, prof})
				r.Eval()
				if ln > 0 {
					r.NTCount(1)
				}
				c := &c10Case{Cfg: e.cfg, Family: "construct"}
				vs := e.construct(r)
				c10Report(r, e, c, vs, func() []c10Viol { return c10NewEnv(e.cfg).construct(r) })
				r.Outcome(fmt.Sprintf("construct/total=%d", e.total))
			}
		}
	}

	// configurations for the delivery families: for each total t the shortest, the one-below-full and the full length
	cfgsFor := func(sizes []uint32, maxTotal int, profiles []int) []c10Cfg {
		out := []c10Cfg{}
		for _, ps := range sizes {
			for t := 1; t <= maxTotal; t++ {
				for _, ln := range []int{(t-1)*int(ps) + 1, t*int(ps) - 1, t * int(ps)} {
					if ln < 1 || (ln+int(ps)-1)/int(ps) != t {
						continue
					}
					for _, p := range profiles {
						out = append(out, c10Cfg{ps, ln, p})
					}
				}
			}
		}
		// dedup
		seen := map[c10Cfg]bool{}
		o2 := []c10Cfg{}
		for _, c := range out {
			if !seen[c] {
				seen[c] = true
				o2 = append(o2, c)
			}
		}
		return o2
	}

	// ---- 2. orders with repetition over genuine parts
	maxOrd := vr.Pick(4, 5)
	for _, cfg := range cfgsFor([]uint32{4, 7}, maxOrd, []int{0, 1, 2}) {
		if d.stop {
			break
		}
		e := d.env(cfg)
		n := int(e.total)
		L := n + 2
		idx := make([]int, L)
		var rec func(depth int)
		rec = func(depth int) {
			if d.stop {
				return
			}
			if depth > 0 {
				seq := make([]c10Msg, depth)
				inOrder := depth == n
				for k := 0; k < depth; k++ {
					seq[k] = e.genuine(idx[k])
					if idx[k] != k {
						inOrder = false
					}
				}
				d.try(e, "orders", seq, inOrder)
			}
			if depth == L {
				return
			}
			for a := 0; a < n; a++ {
				idx[depth] = a
				rec(depth + 1)
			}
		}
		rec(0)
	}
	r.Set("orders_bound", fmt.Sprintf("totals 1..%d, part sizes {4,7}, all sequences with repetition up to length total+2", maxOrd))

	// ---- 3. bfs closure of the position-state space
	maxBfs := vr.Pick(4, 5)
	nb := 0
	for _, cfg := range cfgsFor([]uint32{4}, maxBfs, []int{0, 1, 2}) {
		nb++
		if d.stop || !r.Mine(nb) {
			continue
		}
		e := d.env(cfg)
		n := int(e.total)
		alpha := []c10Msg{}
		for i := 0; i < n; i++ {
			g := e.genuine(i)
			alpha = append(alpha, g)
			cor := g
			cor.Bytes = c10Flip(g.Bytes, 0, 1)
			cor.Desc = fmt.Sprintf("part %d with first byte flipped", i)
			alpha = append(alpha, cor)
			for j := 0; j < n; j++ {
				if j == i {
					continue
				}
				rl := g
				rl.Index = uint32(j)
				rl.Desc = fmt.Sprintf("part %d relabelled part.Index=%d", i, j)
				alpha = append(alpha, rl)
				rl2 := rl
				rl2.PIndex = int64(j)
				rl2.Desc = fmt.Sprintf("part %d relabelled part.Index=proof.Index=%d", i, j)
				alpha = append(alpha, rl2)
				x := e.genuine(j)
				x.LeafHash, x.Aunts, x.PIndex = g.LeafHash, g.Aunts, g.PIndex
				x.Desc = fmt.Sprintf("bytes of part %d with the proof of part %d at position %d", j, i, j)
				alpha = append(alpha, x)
			}
		}
		canon := func(model [][]byte) string {
			var sb strings.Builder
			for _, b := range model {
				if b == nil {
					sb.WriteString("-|")
				} else {
					fmt.Fprintf(&sb, "%x|", b)
				}
			}
			return sb.String()
		}
		type node struct{ path []int }
		visited := map[string]bool{canon(make([][]byte, n)): true}
		r.States++
		queue := []node{{}}
		steps := 0
		for len(queue) > 0 && !d.stop {
			cur := queue[0]
			queue = queue[1:]
			for a := range alpha {
				steps++
				if steps%512 == 0 && r.Deadline("C10 bfs") {
					d.stop = true
					break
				}
				seq := make([]c10Msg, 0, len(cur.path)+1)
				for _, p := range cur.path {
					seq = append(seq, alpha[p])
				}
				seq = append(seq, alpha[a])
				r.Eval()
				r.NTCount(1)
				r.Transitions++
				r.Traces++
				vs, model, classes := e.runSeq(r, seq, len(seq)-1)
				c := &c10Case{Cfg: cfg, Family: "bfs", Seq: seq}
				c10Report(r, e, c, vs, func() []c10Viol { v, _, _ := e.runSeq(r, seq, len(seq)-1); return v })
				r.Outcome("last-delivery:" + classes[len(classes)-1])
				r.Outcome("family:bfs-transition")
				k := canon(model)
				if !visited[k] {
					visited[k] = true
					r.States++
					if len(seq) > r.MaxDepth {
						r.MaxDepth = len(seq)
					}
					queue = append(queue, node{append(append([]int{}, cur.path...), a)})
				}
			}
		}
		r.Add("bfs_configurations_closed", 1)
	}
	r.Set("bfs_bound", fmt.Sprintf("totals 1..%d, part size 4, 3 profiles; alphabet per part: genuine, corrupted, and per other position: relabelled (2 ways), cross-proof; closed (no depth bound)", maxBfs))

	// ---- diagnostic: a header whose hash is empty commits to nothing; a malformed proof computes a nil root and bytes.Equal(nil, empty) holds
	if r.Mine(1) {
		recv := NewPartSetFromHeader(PartSetHeader{Total: 2, Hash: nil})
		junk := []byte("junk")
		func() {
			defer func() { _ = recover() }()
			if added, _ := recv.AddPart(&Part{Index: 1, Bytes: junk, Proof: merkle.Proof{Total: 0, Index: 0, LeafHash: c10Sum([]byte{0}, junk)}}); added {
				r.Add("diag_empty_header_hash_admits_arbitrary_bytes", 1)
			}
		}()
	}

	// ---- 4. production part size, real block
	if !d.stop {
		cfg := c10Cfg{BlockPartSizeBytes, vr.Pick(200000, 330000), 3}
		e := d.env(cfg)
		n := int(e.total)
		c := &c10Case{Cfg: cfg, Family: "construct"}
		if r.Mine(0) {
			r.Eval()
			r.NTCount(1)
			vs := e.construct(r)
			c10Report(r, e, c, vs, func() []c10Viol { return c10NewEnv(cfg).construct(r) })
			r.Outcome(fmt.Sprintf("construct/production total=%d", n))
		}
		// all permutations, through the wire
		perm := make([]int, n)
		for i := range perm {
			perm[i] = i
		}
		var permute func(k int)
		permute = func(k int) {
			if k == n {
				seq := []c10Msg{}
				ordered := true
				for q, i := range perm {
					m := e.genuine(i)
					m.Wire = true
					seq = append(seq, m)
					ordered = ordered && q == i
				}
				d.try(e, "production-orders", seq, ordered)
				return
			}
			for i := k; i < n; i++ {
				perm[k], perm[i] = perm[i], perm[k]
				permute(k + 1)
				perm[k], perm[i] = perm[i], perm[k]
			}
		}
		permute(0)
		// every relabel i->j, wire-validated, into a receiver that holds all other genuine parts
		for i := 0; i < n; i++ {
			for j := 0; j < n; j++ {
				if i == j {
					continue
				}
				seq := []c10Msg{}
				for q := 0; q < n; q++ {
					if q != j {
						m := e.genuine(q)
						m.Wire = true
						seq = append(seq, m)
					}
				}
				m := e.genuine(i)
				m.Index, m.Wire = uint32(j), true
				m.Desc = fmt.Sprintf("production-size part %d relabelled part.Index=%d", i, j)
				d.try(e, "production-relabel+wire", append(seq, m), false)
				m2 := m
				m2.PIndex = int64(j)
				m2.Desc += " and proof.Index likewise"
				d.try(e, "production-relabel+wire", append(append([]c10Msg{}, seq...), m2), false)
			}
		}
		r.Set("production_bound", fmt.Sprintf("real block of %d bytes in %d parts of %d: all %d! delivery orders and all relabels, through ToProto/PartFromProto", len(e.data), n, BlockPartSizeBytes, n))
	}
	// ---- 5. single mutated message x three receivers
	maxMut := vr.Pick(6, 9)
	mutCfgs := cfgsFor([]uint32{4}, maxMut, []int{0, 1, 2})
	mutCfgs = append(mutCfgs, cfgsFor([]uint32{5, 8}, maxMut, []int{0})...)
	deliver := func(e *c10Env, fam string, m c10Msg) {
		d.try(e, fam, []c10Msg{m}, false)
		if m.Index < e.total {
			seq := []c10Msg{}
			for j := 0; j < int(e.total); j++ {
				if uint32(j) != m.Index {
					seq = append(seq, e.genuine(j))
				}
			}
			d.try(e, fam, append(append([]c10Msg{}, seq...), m), false)
			mw := m
			mw.Wire = true
			d.try(e, fam+"+wire", append(append([]c10Msg{}, seq...), mw), false)
			if fam == "transplant" {
				// poison first, then the honest parts including the genuine one for the poisoned slot
				all := []c10Msg{m}
				for j := 0; j < int(e.total); j++ {
					all = append(all, e.genuine(j))
				}
				d.try(e, "poison-first", all, false)
			}
		}
	}
	for _, cfg := range mutCfgs {
		if d.stop {
			break
		}
		e := d.env(cfg)
		for i := 0; i < int(e.total) && !d.stop; i++ {
			e.mutations(i, thorough, func(fam string, m c10Msg) { deliver(e, fam, m) })
		}
		if cfg.PartSize == 4 && cfg.Profile == 0 {
			e.innerAsLeaf(thorough, func(fam string, m c10Msg) { deliver(e, fam, m) })
		}
	}
	r.Set("mutation_bound", fmt.Sprintf("totals 1..%d; part size 4 x 3 profiles, part sizes 5,8 x profile 0", maxMut))

	if !d.stop {
		r.Bound = fmt.Sprintf("construct: part sizes 1..8 x lengths 0..5*ps+1 x 3 profiles; orders: totals<=%d; mutations: totals<=%d; bfs: totals<=%d closed; production 65536", maxOrd, maxMut, maxBfs)
	}
	if r.Shard == 0 {
		r.Set("cases_generated_before_dedup_and_sharding", d.gen)
	}
}
