package types

// C10, part "conc": "all orders and repetitions of part delivery" includes deliveries that overlap in time — the
// part set is a shared object with its own mutex and is fed by several goroutines (gossip, catch-up, block sync).
// Every interleaving of 3-4 goroutines that add parts to / read one real PartSet is enumerated under the
// cooperative scheduler (scheduling points = the part set's own mutex operations): the same genuine part twice, the
// other parts, a forged part, and a reader that reassembles as soon as the set says it is complete.
// Judged after every scheduling decision and at the end: the count equals the number of filled slots, a complete
// set has every slot filled and reassembles to the original bytes, exactly one of two simultaneous deliveries of a
// part reports it as added, the forged part is never stored.

import (
	"bytes"
	"fmt"
	"io"
	"testing"
	"time"

	"github.com/tendermint/tendermint/internal/verif/gosched"
	"github.com/tendermint/tendermint/internal/verif/vr"
)

type c10cCase struct {
	Scenario string `json:"scenario"`
	Choices  []int  `json:"schedule"`
	Trace    string `json:"trace,omitempty"`
}

type c10cRun struct {
	ps      *PartSet
	data    []byte
	added   map[string]bool
	errs    map[string]error
	readOK  string // what the reader saw ("" = set was not complete when it looked)
	midFail string
}

var c10cScenarios = []string{"dup0+rest", "dup-last", "dup0+forged", "three-writers+reader"}

func c10cBuild(scn string) (*gosched.Sched, *c10cRun) {
	data := []byte("0123456789ab")[:10] // part size 4 -> parts of 4, 4, 2 bytes
	src := NewPartSetFromData(data, 4)
	run := &c10cRun{ps: NewPartSetFromHeader(src.Header()), data: data, added: map[string]bool{}, errs: map[string]error{}}
	s := gosched.New()
	run.ps.mtx.Manage(s, "partset")
	add := func(name string, idx int) func() {
		return func() {
			p := src.GetPart(idx)
			cp := &Part{Index: p.Index, Bytes: append([]byte{}, p.Bytes...), Proof: p.Proof} // every delivery is a fresh object off the wire
			ok, err := run.ps.AddPart(cp)
			run.added[name], run.errs[name] = ok, err
		}
	}
	forged := func(name string) func() {
		return func() {
			p := src.GetPart(1)
			cp := &Part{Index: 0, Bytes: append([]byte{}, p.Bytes...), Proof: p.Proof} // part 1's bytes and proof offered for slot 0
			ok, err := run.ps.AddPart(cp)
			run.added[name], run.errs[name] = ok, err
		}
	}
	reader := func() {
		if run.ps.IsComplete() {
			b, err := io.ReadAll(run.ps.GetReader())
			if err != nil {
				run.readOK = "error: " + err.Error()
			} else if !bytes.Equal(b, data) {
				run.readOK = fmt.Sprintf("wrong bytes %q", b)
			} else {
				run.readOK = "ok"
			}
		}
	}
	seq := func(fs ...func()) func() {
		return func() {
			for _, f := range fs {
				f()
			}
		}
	}
	switch scn {
	case "dup0+rest":
		s.Go("a", add("a:0", 0))
		s.Go("b", add("b:0", 0))
		s.Go("c", seq(add("c:1", 1), add("c:2", 2)))
		s.Go("r", reader)
	case "dup-last":
		s.Go("a", seq(add("a:0", 0), add("a:2", 2)))
		s.Go("b", seq(add("b:1", 1), add("b:2", 2)))
		s.Go("r", reader)
	case "dup0+forged":
		s.Go("a", add("a:0", 0))
		s.Go("b", add("b:0", 0))
		s.Go("f", forged("f:forged0"))
		s.Go("c", seq(add("c:1", 1), add("c:2", 2)))
	case "three-writers+reader":
		s.Go("a", seq(add("a:0", 0), add("a:1", 1)))
		s.Go("b", seq(add("b:1", 1), add("b:2", 2)))
		s.Go("c", seq(add("c:2", 2), add("c:0", 0)))
		s.Go("r", reader)
	default:
		panic("c10c: unknown scenario " + scn)
	}
	s.OnStep = func() {
		if run.midFail == "" {
			run.midFail = run.invariant()
		}
	}
	return s, run
}

// invariant reads the part set's fields directly (every goroutine is parked outside a critical section).
func (run *c10cRun) invariant() string {
	ps := run.ps
	filled, bytesIn := 0, int64(0)
	for i, p := range ps.parts {
		if p != nil {
			filled++
			bytesIn += int64(len(p.Bytes))
			if int(p.Index) != i {
				return fmt.Sprintf("slot %d holds a part that says index %d", i, p.Index)
			}
			if !ps.partsBitArray.GetIndex(i) {
				return fmt.Sprintf("slot %d is filled but its bit is clear", i)
			}
		} else if ps.partsBitArray.GetIndex(i) {
			return fmt.Sprintf("slot %d is empty but its bit is set", i)
		}
	}
	if int(ps.count) != filled {
		return fmt.Sprintf("count is %d with %d filled slots (total %d)", ps.count, filled, ps.total)
	}
	if ps.byteSize != bytesIn {
		return fmt.Sprintf("byte size is %d, the stored parts hold %d bytes", ps.byteSize, bytesIn)
	}
	return ""
}

func (run *c10cRun) judge(res *gosched.Result) (key, what string) {
	if len(res.Panics) > 0 {
		return "types/part_set.go:PartSet:concurrent-delivery-panics", fmt.Sprint(res.Panics)
	}
	if res.Deadlock || res.Overrun {
		return "types/part_set.go:PartSet:concurrent-delivery-deadlocks", fmt.Sprintf("deadlock=%v overrun=%v blocked=%v", res.Deadlock, res.Overrun, res.Blocked)
	}
	if run.midFail != "" {
		return "types/part_set.go:AddPart:count-and-slots-disagree-under-simultaneous-delivery", run.midFail
	}
	if m := run.invariant(); m != "" {
		return "types/part_set.go:AddPart:count-and-slots-disagree-under-simultaneous-delivery", m
	}
	if run.readOK != "" && run.readOK != "ok" {
		return "types/part_set.go:PartSet:complete-set-does-not-reassemble", "a reader that found the set complete got: " + run.readOK
	}
	// every slot was delivered at least once: the set must be complete and reassemble
	if !run.ps.IsComplete() {
		return "types/part_set.go:PartSet:not-complete-after-every-part-was-delivered", fmt.Sprintf("count %d of %d", run.ps.count, run.ps.total)
	}
	b, err := io.ReadAll(run.ps.GetReader())
	if err != nil || !bytes.Equal(b, run.data) {
		return "types/part_set.go:PartSet:complete-set-does-not-reassemble", fmt.Sprintf("read %q err %v", b, err)
	}
	perSlot := map[byte]int{}
	for name, ok := range run.added {
		if name == "f:forged0" {
			// (refused with an error while the slot is empty, or simply not added once the slot is taken)
			if ok {
				return "types/part_set.go:AddPart:forged-part-accepted", fmt.Sprintf("added=%v err=%v", ok, run.errs[name])
			}
			continue
		}
		if run.errs[name] != nil {
			return "types/part_set.go:AddPart:genuine-part-refused", fmt.Sprintf("%s: %v", name, run.errs[name])
		}
		if ok {
			perSlot[name[len(name)-1]]++
		}
	}
	for slot, n := range perSlot {
		if n != 1 {
			return "types/part_set.go:AddPart:one-part-reported-as-added-twice", fmt.Sprintf("slot %c: %d deliveries were told they added the part", slot, n)
		}
	}
	if len(perSlot) != 3 {
		return "types/part_set.go:AddPart:no-delivery-reported-as-added", fmt.Sprintf("slots with an 'added' delivery: %d of 3", len(perSlot))
	}
	return "", ""
}

func TestVerifC10Conc(t *testing.T) {
	r := vr.Start("C10", "conc", 60*time.Second, 10*time.Minute)
	defer r.Finish()
	r.Rule = "every schedule (no preemption bound: the scenarios are small) of 3-4 goroutines delivering parts of a 3-part set to one real PartSet and reading it, scheduling points = operations on the part set's mutex; " +
		"scenarios: the same part twice + the rest + reader; the last part twice; the same part twice + a forged part for that slot; three writers with pairwise overlapping parts + reader; " +
		"a case = (scenario, schedule), all distinct; non-trivial = at least one preemption"
	r.Assume("operations between two mutex operations of one goroutine are atomic (no shared state is touched outside the mutex in the unchanged code; a free-running -race pass of the same bodies is the complement)")
	var rc c10cCase
	if rep, skip := r.ReplayCase(&rc); skip {
		return
	} else if rep {
		res, sc := gosched.Replay(rc.Choices, func() (*gosched.Sched, interface{}) { s, run := c10cBuild(rc.Scenario); return s, run })
		r.Eval()
		if k, w := sc.(*c10cRun).judge(res); k != "" {
			r.Violation(k, w, rc)
		}
		return
	}
	for i, scn := range c10cScenarios {
		if !r.Mine(i) {
			continue
		}
		scn := scn
		reported := map[string]bool{}
		execs, complete := gosched.Explore(1000,
			func() (*gosched.Sched, interface{}) { s, run := c10cBuild(scn); return s, run },
			func(res *gosched.Result, sc interface{}) bool {
				run := sc.(*c10cRun)
				r.Eval()
				r.Traces++
				r.Transitions += int64(len(res.Steps))
				if len(res.Steps) > r.MaxDepth {
					r.MaxDepth = len(res.Steps)
				}
				if res.Preempts > 0 {
					r.NTCount(1)
				}
				k, w := run.judge(res)
				if k != "" {
					if !reported[k] {
						reported[k] = true
						cs := c10cCase{Scenario: scn, Choices: res.Choices, Trace: res.String()}
						// the same schedule must fail again
						res2, sc2 := gosched.Replay(cs.Choices, func() (*gosched.Sched, interface{}) { s, run := c10cBuild(scn); return s, run })
						if k2, _ := sc2.(*c10cRun).judge(res2); k2 != k {
							r.Cap("a schedule did not reproduce its violation: " + k)
						} else {
							r.Violation(k, fmt.Sprintf("[%s] %s ; schedule: %s", scn, w, res), cs)
						}
					}
					r.Outcome(scn + ": " + k)
				} else {
					r.Outcome(fmt.Sprintf("%s: reader=%q", scn, run.readOK))
				}
				return !r.Deadline("C10 schedules of " + scn)
			})
		r.Set("schedules["+scn+"]", fmt.Sprintf("%d complete=%v", execs, complete))
		if !complete {
			r.Cap("schedule enumeration of " + scn + " was cut short")
		}
	}
	r.Bound = "all schedules of the four scenarios (no preemption bound)"
}
