package types

// C10 (transaction-proof part) — TxProof.Validate(root) accepts a claim "this transaction sits at this
// position of the data committed to by root" only if that is so.
//
// Everything runs on the real Txs.Proof / TxProof.Validate (and, flagged, TxProof.ToProto -> TxProofFromProto,
// the path an RPC answer takes). The reference knows by construction which transaction sits at which position of
// which tree; it never consults a hash to decide.
//
// A case is (tree sizes, source position, claim edit, expected-root choice). Judged:
//   Validate(expected) == nil  =>  expected is the root of one of the trees the harness built, and the claim's
//                                  transaction is the one at the claimed index of that tree
// The expected root is whatever the caller holds for the block: the genuine root, the root of another tree, nil or
// a zero-length slice (a header's data hash can be empty), a truncated root, or the root the claim itself names.
// Not judged (diagnostic only): refusal of the genuine claim under the genuine root is reported as a violation of
// the converse only for the unedited claim (a correct prover must be believed).

import (
	"bytes"
	"fmt"
	"testing"
	"time"

	"github.com/tendermint/tendermint/crypto/merkle"
	"github.com/tendermint/tendermint/internal/verif/vr"
)

type c10tCase struct {
	N      int  `json:"n"`       // transactions in the tree the claim is taken from
	M      int  `json:"m"`       // transactions in the foreign tree
	I      int  `json:"i"`       // position the claim is taken from
	Edit   int  `json:"edit"`    // see c10tEdits
	Expect int  `json:"expect"`  // see c10tExpects
	Wire   bool `json:"wire"`    // claim goes through ToProto / TxProofFromProto first
}

var c10tEdits = []string{"genuine", "data-of-neighbour", "data-of-foreign", "root-of-foreign", "root-nil", "root-empty",
	"foreign-claim-same-index", "foreign-claim-whole", "index+1", "index-1", "total+1", "leafhash-of-foreign", "aunts-of-foreign"}
var c10tExpects = []string{"genuine-root", "foreign-root", "nil", "empty", "truncated-root", "claimed-root", "zero-32"}

func c10tTxs(n int, tag byte) Txs {
	txs := make(Txs, n)
	for i := range txs {
		txs[i] = Tx([]byte{tag, byte(n), byte(i), 0xC1})
	}
	return txs
}

func c10tRoot(txs Txs) []byte {
	bzs := make([][]byte, len(txs))
	for i := range txs {
		bzs[i] = txs[i].Hash()
	}
	return merkle.HashFromByteSlices(bzs)
}

// run returns a violation key and description, or "".
func c10tRun(c c10tCase) (key, what string) {
	own, foreign := c10tTxs(c.N, 'a'), c10tTxs(c.M, 'b')
	ownRoot, foreignRoot := c10tRoot(own), c10tRoot(foreign)
	tp := own.Proof(c.I)
	if !bytes.Equal(tp.RootHash, ownRoot) {
		return "types/tx.go:proof-names-another-root", fmt.Sprintf("Txs.Proof(%d) of %d txs names root %X, tree root is %X", c.I, c.N, tp.RootHash, ownRoot)
	}
	fi := c.I % c.M
	fp := foreign.Proof(fi)
	switch c10tEdits[c.Edit] {
	case "genuine":
	case "data-of-neighbour":
		tp.Data = own[(c.I+1)%c.N]
	case "data-of-foreign":
		tp.Data = foreign[fi]
	case "root-of-foreign":
		tp.RootHash = foreignRoot
	case "root-nil":
		tp.RootHash = nil
	case "root-empty":
		tp.RootHash = []byte{}
	case "foreign-claim-same-index":
		tp = fp
	case "foreign-claim-whole":
		tp = foreign.Proof((c.I + 1) % c.M)
	case "index+1":
		tp.Proof.Index++
	case "index-1":
		tp.Proof.Index--
	case "total+1":
		tp.Proof.Total++
	case "leafhash-of-foreign":
		tp.Proof.LeafHash = fp.Proof.LeafHash
	case "aunts-of-foreign":
		tp.Proof.Aunts = fp.Proof.Aunts
	}
	if c.Wire {
		pb := tp.ToProto()
		back, err := TxProofFromProto(pb)
		if err != nil {
			return "", "" // refused on the wire: nothing is claimed
		}
		tp = back
	}
	var expected []byte
	switch c10tExpects[c.Expect] {
	case "genuine-root":
		expected = ownRoot
	case "foreign-root":
		expected = foreignRoot
	case "nil":
		expected = nil
	case "empty":
		expected = []byte{}
	case "truncated-root":
		expected = ownRoot[:16]
	case "claimed-root":
		expected = tp.RootHash
	case "zero-32":
		expected = make([]byte, 32)
	}
	var err error
	func() {
		defer func() {
			if p := recover(); p != nil {
				err = fmt.Errorf("panic: %v", p)
			}
		}()
		err = tp.Validate(expected)
	}()
	// reference: which (tree, position) does the claim name, and does the expected root commit to that tree?
	holds, alias := false, false
	for _, t := range []struct {
		txs  Txs
		root []byte
	}{{own, ownRoot}, {foreign, foreignRoot}} {
		if len(expected) == 0 || !bytes.Equal(expected, t.root) {
			continue
		}
		for p := range t.txs {
			if !bytes.Equal(tp.Data, t.txs[p]) {
				continue
			}
			// an RFC-6962 root does not commit to the leaf count: a claim whose total differs from the tree's but whose
			// (index, total) walks the same left/right path is an alias of the true position — recorded, not judged
			if tp.Proof.Total != int64(len(t.txs)) {
				alias = true
				holds = true
			} else if tp.Proof.Index == int64(p) {
				holds = true
			}
		}
	}
	if err == nil && !holds {
		return "types/tx.go:Validate:accepts-claim-not-under-expected-root",
			fmt.Sprintf("claim (%s, index %d, total %d, data %X, names root %X) validated against expected root %q=%X which does not commit to it",
				c10tEdits[c.Edit], tp.Proof.Index, tp.Proof.Total, []byte(tp.Data), []byte(tp.RootHash), c10tExpects[c.Expect], expected)
	}
	if err == nil && alias {
		return "", "alias"
	}
	if err != nil && c.Edit == 0 && c.Expect == 0 {
		return "types/tx.go:Validate:refuses-genuine-claim", fmt.Sprintf("genuine proof of tx %d of %d refused under the genuine root: %v", c.I, c.N, err)
	}
	return "", ""
}

func TestVerifC10TxProof(t *testing.T) {
	r := vr.Start("C10", "txproof", 60*time.Second, 10*time.Minute)
	defer r.Finish()
	r.Rule = "odometer over (tree size n, foreign tree size m, source position, claim edit from a 13-item menu, expected root from a 7-item menu, wire round trip); " +
		"every tuple distinct by construction; non-trivial = anything but the genuine claim under the genuine root"
	r.Assume("SHA-256 collision resistance; transactions are distinct 4-byte strings, the two trees share none")
	var rc c10tCase
	if rep, skip := r.ReplayCase(&rc); skip {
		return
	} else if rep {
		r.Eval()
		if k, w := c10tRun(rc); k != "" {
			r.Violation(k, w, rc)
		}
		return
	}
	maxN := vr.Pick(9, 17)
	r.Bound = fmt.Sprintf("trees of 1..%d transactions, foreign trees of 1..%d; %d edits x %d expected roots x {direct, wire}", maxN, maxN, len(c10tEdits), len(c10tExpects))
	k := 0
	for n := 1; n <= maxN; n++ {
		for m := 1; m <= maxN; m++ {
			for i := 0; i < n; i++ {
				for ed := range c10tEdits {
					for ex := range c10tExpects {
						for _, wire := range []bool{false, true} {
							k++
							if !r.Mine(k) {
								continue
							}
							if k%4096 == 0 && r.Deadline("C10 txproof enumeration") {
								return
							}
							c := c10tCase{N: n, M: m, I: i, Edit: ed, Expect: ex, Wire: wire}
							r.Eval()
							if ed != 0 || ex != 0 {
								r.NTCount(1)
							}
							key, what := c10tRun(c)
							if key == "" && what == "alias" {
								r.Add("total_aliases_accepted_not_judged", 1)
							}
							r.Outcome(fmt.Sprintf("%s/%s:%v", c10tEdits[ed], c10tExpects[ex], key == ""))
							if key != "" {
								first := fmt.Errorf("%s", key)
								if !vr.Confirm(3, first, func() error {
									if k2, _ := c10tRun(c); k2 != "" {
										return fmt.Errorf("%s", k2)
									}
									return nil
								}) {
									panic("C10 txproof harness nondeterministic")
								}
								r.Violation(key, what, c)
							}
						}
					}
				}
			}
		}
	}
}
