package types

// C08 part "rotation": IncrementProposerPriority / GetProposer against a math/big re-implementation of the
// specified weighted round-robin (spec/consensus/proposer-selection.md), on
//   (1) every fresh set with small powers: over one full period of P runs each validator is elected exactly
//       VP times (spec, claim R2), and the sequence equals the reference;
//   (2) every state of the same state-hash search the updates part uses (sets with skewed priorities after
//       adds/removals/power changes, extreme powers): H successive single runs, IncrementProposerPriority(k)
//       for every k <= K (that is what round k of a height and the historical lookup use), and the first
//       runs after every further batch (new-validator penalty, rescaling, centring), all versus the reference;
//       no intermediate of the arithmetic may leave int64, no priority may sit on a clip value.

import (
	"fmt"
	"math"
	"math/big"
	"testing"
	"time"

	"github.com/tendermint/tendermint/internal/verif/vr"
)

type c08RotCase struct {
	Kind  string      `json:"kind"` // "period" | "runs" | "times" | "after-update"
	Path  c08Path     `json:"path"`
	Batch []c08Change `json:"batch,omitempty"`
	N     int         `json:"n"` // horizon / times
}

func (e *c08Env) proposerIdx(vs *ValidatorSet) int {
	p := vs.GetProposer()
	if p == nil {
		return -1
	}
	if i, ok := e.idx[string(p.Address)]; ok {
		return i
	}
	return -2
}

func c08Clipped(vs *ValidatorSet) bool {
	for _, v := range vs.Validators {
		if v.ProposerPriority == math.MaxInt64 || v.ProposerPriority == math.MinInt64 {
			return true
		}
	}
	return false
}

// runs: n single runs from vs versus the reference started from ref (which the caller derived according to the
// specification). Returns the reference proposer sequence.
func (e *c08Env) runs(vs *ValidatorSet, ref *c08Ref, n int, where string) (key, what string, seq []int, prioMismatch bool) {
	c := c08Clone(vs)
	for i := 1; i <= n; i++ {
		c.IncrementProposerPriority(1)
		want := ref.run()
		seq = append(seq, want)
		got := e.proposerIdx(c)
		if ref.Over != "" {
			return "types/validator_set.go:IncrementProposerPriority:priority-arithmetic-exceeds-int64",
				fmt.Sprintf("%s: from %s, run %d: %s", where, e.show(vs), i, ref.Over), seq, prioMismatch
		}
		if c08Clipped(c) {
			return "types/validator_set.go:IncrementProposerPriority:priority-clipped",
				fmt.Sprintf("%s: from %s, run %d: %s", where, e.show(vs), i, e.show(c)), seq, prioMismatch
		}
		if got != want {
			return "types/validator_set.go:IncrementProposerPriority:proposer-differs-from-specified-round-robin",
				fmt.Sprintf("%s: from %s, run %d elects %d, the specified selection elects %d (reference sequence so far %v; implementation now %s)",
					where, e.show(vs), i, got, want, seq, e.show(c)), seq, prioMismatch
		}
		if !e.samePrios(c, ref) {
			prioMismatch = true
		}
	}
	return "", "", seq, prioMismatch
}

// checkState: the judged observations in one reached state.
func (e *c08Env) checkRotState(r *vr.Report, vs *ValidatorSet, H, K int) (key, what string, cs c08RotCase) {
	ref := e.refFrom(vs)
	key, what, seq, pm := e.runs(vs, ref, H, "single runs")
	if key != "" {
		return key, what, c08RotCase{Kind: "runs", N: H}
	}
	if pm && r != nil {
		r.Add("diag_priorities_differ_from_reference_with_same_proposers", 1)
	}
	if r != nil {
		// how much the text's open point (rounding of the average) matters: never judged
		alt := e.refFrom(vs)
		alt.AvgTrunc = true
		for i := 0; i < H; i++ {
			if alt.run() != seq[i] {
				r.Add("diag_average_rounding_toward_zero_would_change_a_proposer", 1)
				break
			}
		}
	}
	// IncrementProposerPriority(k) must elect what k specified selections elect: that is how the proposer of
	// round k is obtained by a node that skips rounds, and how LoadValidators reconstructs a past set.
	for k := 2; k <= K && k <= len(seq); k++ {
		c := c08Clone(vs)
		c.IncrementProposerPriority(int32(k))
		if got := e.proposerIdx(c); got != seq[k-1] {
			d := c08Clone(vs)
			for i := 0; i < k; i++ {
				d.IncrementProposerPriority(1)
			}
			return "types/validator_set.go:IncrementProposerPriority:times>1-differs-from-repeated-selection",
				fmt.Sprintf("from %s: IncrementProposerPriority(%d) elects %d (%s) but %d specified selections elect %d (sequence %v; %d x IncrementProposerPriority(1) gives %s)",
					e.show(vs), k, got, e.show(c), k, seq[k-1], seq[:k], k, e.show(d)), c08RotCase{Kind: "times", N: k}
		} else if r != nil {
			d := c08Clone(vs)
			for i := 0; i < k; i++ {
				d.IncrementProposerPriority(1)
			}
			if c08Diff(c, d) != "" {
				r.Add("diag_times_k_priorities_differ_from_k_single_runs", 1)
			}
		}
	}
	return "", "", c08RotCase{}
}

// checkAfterUpdate: batch (accepted by the map reference), then the first runs of the selection.
func (e *c08Env) checkAfterUpdate(r *vr.Report, vs *ValidatorSet, batch []c08Change, H int) (key, what, outcome string) {
	if _, reject := c08RefBatch(e.members(vs), batch); reject != "" {
		return "", "", ""
	}
	c := c08Clone(vs)
	if err := c.UpdateWithChangeSet(e.vals(batch)); err != nil {
		return "", "", "" // judged (as a diagnostic) by the updates part
	}
	ref := e.refFrom(vs)
	ref.update(batch)
	if ref.Over != "" {
		return "types/validator_set.go:UpdateWithChangeSet:priority-arithmetic-exceeds-int64", fmt.Sprintf("set %s, batch %v: %s", e.show(vs), batch, ref.Over), ""
	}
	same := e.samePrios(c, ref)
	h := 2
	if !same {
		h = H // priorities already differ from the text: judge the observable over the whole horizon
		if r != nil {
			r.Add("diag_update_priorities_differ_from_reference", 1)
		}
	}
	key, what, seq, _ := e.runs(c, ref, h, fmt.Sprintf("after batch %v on %s", batch, e.show(vs)))
	if key != "" {
		return key + ":after-update", what, ""
	}
	if r != nil {
		adds, rems := 0, 0
		cur := e.members(vs)
		for _, ch := range batch {
			if _, in := cur[ch.A]; ch.P == 0 {
				rems++
			} else if !in {
				adds++
			}
		}
		if adds > 0 && rems > 0 {
			// second reading of "P = total of the set including V": never judged
			alt := e.refFrom(vs)
			alt.PenaltyOnFinal = true
			alt.update(batch)
			for i := 0; i < h; i++ {
				if alt.run() != seq[i] {
					r.Add("diag_penalty_on_final_total_would_change_a_proposer", 1)
					break
				}
			}
		}
		outcome = fmt.Sprintf("after-update:first=%d,new=%d", seq[0], adds)
	}
	return "", "", outcome
}

// checkPeriod: fresh set, P runs: counts equal powers, sequence equals the reference.
func (e *c08Env) checkPeriod(r *vr.Report, base []int64) (key, what string) {
	vs := e.fresh(base)
	P := int(vs.TotalVotingPower())
	// NewValidatorSet has already run the selection once; a period may start anywhere
	ref := e.refFrom(vs)
	key, what, seq, _ := e.runs(vs, ref, P, "full period")
	if key != "" {
		return key, what
	}
	cnt := map[int]int{}
	for _, p := range seq {
		cnt[p]++
	}
	for i, p := range base {
		if int64(cnt[i]) != p {
			return "types/validator_set.go:IncrementProposerPriority:turns-not-proportional-over-a-period",
				fmt.Sprintf("powers %v: over %d runs validator %d was elected %d times (sequence %v)", base, P, i, cnt[i], seq)
		}
	}
	// same through IncrementProposerPriority(k) for all k <= P
	for k := 2; k <= P; k++ {
		c := c08Clone(vs)
		c.IncrementProposerPriority(int32(k))
		if got := e.proposerIdx(c); got != seq[k-1] {
			return "types/validator_set.go:IncrementProposerPriority:times>1-differs-from-repeated-selection",
				fmt.Sprintf("fresh powers %v: IncrementProposerPriority(%d) elects %d, %d selections elect %d", base, k, got, k, seq[k-1])
		}
	}
	return "", ""
}

func TestVerifC08Rotation(t *testing.T) {
	r := vr.Start("C08", "rotation", 80*time.Second, 18*time.Minute)
	defer r.Finish()
	r.Rule = "case = (state, observation): H single selections, IncrementProposerPriority(k) for each k<=K, and the first selections after every further batch of the search alphabet, " +
		"each compared with the big-integer specification; plus every fresh small-power set over a full period; states as in the updates part; non-trivial = state reached by at least one batch, or period case with unequal powers"
	r.Assume("reference = spec/consensus/proposer-selection.md: per run scale (integer divisor ceil(diff/2P), truncating division), centre (floor average), add power, elect maximum (ties: lowest address), subtract P; new validators enter at -(P + P>>3) with P = total after updates before removals; readings the text leaves open are reported as diagnostics")
	e := newC08Env()

	var rc c08RotCase
	if rep, skip := r.ReplayCase(&rc); skip {
		return
	} else if rep {
		r.Eval()
		var key, what string
		switch rc.Kind {
		case "period":
			key, what = e.checkPeriod(r, rc.Path.Base)
		case "after-update":
			vs, err := e.build(rc.Path)
			if err != nil {
				panic(err)
			}
			key, what, _ = e.checkAfterUpdate(r, vs, rc.Batch, rc.N)
		default:
			vs, err := e.build(rc.Path)
			if err != nil {
				panic(err)
			}
			key, what, _ = e.checkRotState(r, vs, rc.N, rc.N)
		}
		if key != "" {
			r.Violation(key, what, rc)
		}
		return
	}
	own := func(i int) bool { return r.Mine(i) }
	confirm := func(key string, f func() string) {
		if !vr.Confirm(3, fmt.Errorf("%s", key), func() error {
			if k := f(); k != "" {
				return fmt.Errorf("%s", k)
			}
			return nil
		}) {
			panic("C08 rotation: case does not reproduce: " + key)
		}
	}

	// phase 1: full periods of fresh sets
	small := []int64{0, 1, 2, 3, 5, 8}
	if vr.Thorough() {
		small = []int64{0, 1, 2, 3, 4, 5, 7, 8, 13}
	}
	pb := c08AllBases(small)
	for i, b := range pb {
		if !own(i) {
			continue
		}
		r.Eval()
		n := 0
		for _, p := range b {
			if p != 0 {
				n++
			}
		}
		if n > 1 {
			r.NTCount(1)
		}
		if key, what := e.checkPeriod(r, b); key != "" {
			confirm(key, func() string { k, _ := e.checkPeriod(nil, b); return k })
			r.Violation(key, what, c08RotCase{Kind: "period", Path: c08Path{Base: b}})
		} else {
			r.Outcome(fmt.Sprintf("period:n=%d", n))
		}
		r.Traces++
	}
	if r.Shard == 0 {
		r.Set("period_sets", int64(len(pb)))
	}

	// phase 2: the search
	M := c08M
	menu := []int64{0, 1, 2, 5, M / 2, M - 3}
	seeds := [][]int64{{1, 0, 0, 0}, {5, 1, 0, 0}, {1, 2, 5, 0}, {2, 2, 2, 2}, {M / 2, 1, 0, 5}, {M - 3, 0, 1, 2}}
	levels := [][]c08Op{
		c08Ops(menu, 2, []int32{0, 1}),
		c08Ops(menu, 1, []int32{0, 1}),
		c08Ops(menu, 1, []int32{1}),
	}
	if vr.Thorough() {
		levels = [][]c08Op{
			c08Ops(menu, 2, []int32{0, 1}),
			c08Ops(menu, 2, []int32{0, 1}),
		}
	}
	H, K := vr.Pick(24, 64), vr.Pick(24, 64)
	var after1, after2 [][]c08Change
	c08Multisets(c08Changes(menu), 1, func(b []c08Change) bool {
		if len(b) > 0 {
			after1 = append(after1, b)
		}
		return true
	})
	c08Multisets(c08Changes(menu), 2, func(b []c08Change) bool {
		if len(b) > 0 {
			after2 = append(after2, b)
		}
		return true
	})
	afterFull := vr.Pick(1, 2) // states up to this depth: every batch of <= 2 changes, deeper ones <= 1 change
	_, md, complete := e.search(seeds, levels, own, func(s *c08State) bool {
		if r.Deadline("rotation: states") {
			return false
		}
		r.States++
		r.Eval()
		if len(s.Path.Ops) > 0 {
			r.NTCount(1)
		}
		if r.States%2500 == 11 {
			r.Sample(map[string]interface{}{"path": s.Path, "set": e.show(s.VS), "runs": H, "times_up_to": K})
		}
		// horizon: at least two periods when the total is small
		h := H
		if tp := new(big.Int).SetInt64(s.VS.TotalVotingPower()); tp.Cmp(big.NewInt(int64(H/2))) > 0 && tp.Cmp(big.NewInt(40)) <= 0 {
			h = 2 * int(tp.Int64())
		}
		k := K
		if k > h {
			k = h
		}
		r.Traces += int64(1 + k)
		if key, what, cs := e.checkRotState(r, s.VS, h, k); key != "" {
			cs.Path = s.Path
			n := cs.N
			confirm(key, func() string {
				v2, err := e.build(s.Path)
				if err != nil {
					return err.Error()
				}
				k2, _, _ := e.checkRotState(nil, v2, n, n)
				return k2
			})
			r.Violation(key, what, cs)
		} else {
			r.Outcome(fmt.Sprintf("state:n=%d,depth=%d", len(s.VS.Validators), s.Depth))
		}
		batches := after1
		if s.Depth <= afterFull {
			batches = after2
		}
		for _, b := range batches {
			key, what, out := e.checkAfterUpdate(r, s.VS, b, h)
			if out == "" && key == "" {
				continue
			}
			r.Eval()
			r.NTCount(1)
			r.Traces++
			if key != "" {
				b := b
				confirm(key, func() string {
					v2, err := e.build(s.Path)
					if err != nil {
						return err.Error()
					}
					k2, _, _ := e.checkAfterUpdate(nil, v2, b, h)
					return k2
				})
				r.Violation(key, what, c08RotCase{Kind: "after-update", Path: s.Path, Batch: b, N: h})
			} else {
				r.Outcome(out)
			}
		}
		return true
	}, func() { r.Transitions++ })
	r.MaxDepth = md
	if complete {
		r.Bound = fmt.Sprintf("periods: all %d fresh sets over %v; search: %d seeds, depth %d, alphabets %v ops per depth; per state %d single runs (2P if that is more and P<=40), IncrementProposerPriority(k) k<=%d, first runs after every batch of <=2 changes (depth<=%d) or 1 change",
			len(pb), small, len(seeds), len(levels), c08LevelSizes(levels), H, K, afterFull)
	}
}
