package types

// C07 — a commit is accepted only with enough distinct valid signatures for that block.
// Exhaustive small-scope enumeration of (validator powers, per-slot signature kind, structural
// edit, trust fraction, trusted set) against a big-integer reference that knows, by construction,
// what every slot really signed.

import (
	"fmt"
	"math/big"
	"testing"
	"time"

	"github.com/tendermint/tendermint/crypto"
	"github.com/tendermint/tendermint/crypto/ed25519"
	"github.com/tendermint/tendermint/internal/verif/vr"
	tmmath "github.com/tendermint/tendermint/libs/math"
	tmproto "github.com/tendermint/tendermint/proto/tendermint/types"
)

const (
	c07Chain  = "verif-c07"
	c07Height = int64(7)
	c07Round  = int32(1)
)

// slot kinds
const (
	c07Absent = iota
	c07ForBlock
	c07NilValid
	c07OtherBlock  // flag commit, signature over another block id
	c07WrongKey    // flag commit, signature by the next validator's key (address stays)
	c07Garbage     // flag commit, 64 bytes of garbage
	c07NilBadSig   // flag nil, garbage signature
	c07OtherChain  // flag commit, signed for another chain id
	c07OtherHeight // flag commit, signed for height+1
	c07OtherRound  // flag commit, signed for round+1
	c07FlagNilSigBlock
	c07FlagCommitSigNil
	c07Borrowed    // slot carries the NEXT validator's address and that validator's valid signature
	c07OtherType   // flag commit, signature over a prevote
	c07PSHOnly     // flag commit, signed over a block id with the same hash but another part-set header
	c07HashOnlyID  // flag commit, signed over the incomplete block id (genuine hash, zero part-set header)
	c07PartsOnlyID // flag commit, signed over the incomplete block id (no hash, genuine part-set header)
	c07NKinds
)

var c07KindNames = []string{"absent", "for-block", "nil", "other-block", "wrong-key", "garbage", "nil-badsig",
	"other-chain", "other-height", "other-round", "flag-nil/sig-block", "flag-commit/sig-nil", "borrowed-signer",
	"prevote-sig", "other-part-header", "signed-hash-only-id", "signed-parts-only-id"}

type c07Case struct {
	Powers []int64 `json:"powers"` // as given; the set sorts them
	Kinds  []int   `json:"kinds"`  // per slot, in validator-set order
	// structural edits
	ExtraSlot    int    `json:"extra_slot"`    // 0 none, 1 append absent slot, 2 append valid outsider slot, -1 drop last slot
	CommitHeight int64  `json:"commit_height"` // delta added to commit.Height
	CommitRound  int32  `json:"commit_round"`  // delta added to commit.Round
	CommitBlock  int    `json:"commit_block"`  // 0 genuine, 1 other hash, 2 same hash other part header
	CallerHeight int64  `json:"caller_height"` // delta
	CallerBlock  int    `json:"caller_block"`
	CallerChain  int    `json:"caller_chain"` // 0 genuine, 1 other
	Num          uint64 `json:"num"`
	Den          uint64 `json:"den"`
	// trusted set for the trusting variant: indices into the signing set's keys (+100 = outsider), with powers.
	// empty = same set.
	TrustedKeys   []int   `json:"trusted_keys,omitempty"`
	TrustedPowers []int64 `json:"trusted_powers,omitempty"`
	// WireTotal != 0: the verifying sets are taken through their wire form (ToProto / ValidatorSetFromProto, as a light block or
	// evidence arriving from a peer is) with the sender's total_voting_power field set to this value
	WireTotal int64 `json:"wire_total_voting_power,omitempty"`
	// ChainPair selects the genuine / other chain id: 0 short ids; 1 two ids longer than MaxChainIDLen that share their first
	// MaxChainIDLen bytes; 2 an id one byte longer than MaxChainIDLen and its MaxChainIDLen-byte prefix; 3 two ids of exactly
	// MaxChainIDLen bytes that differ in the last byte
	ChainPair int `json:"chain_pair,omitempty"`
}

// c07ChainOf returns the genuine (which 0) or the other (which 1) chain id of a pair.
func c07ChainOf(pair, which int) string {
	p50 := "verif-c07-a-chain-id-of-exactly-fifty-bytes-long-x"[:MaxChainIDLen]
	switch pair {
	case 1:
		return p50 + []string{"-mainnet", "-testnet"}[which]
	case 2:
		return []string{p50 + "x", p50}[which]
	case 3:
		return p50[:MaxChainIDLen-1] + []string{"a", "b"}[which]
	}
	return []string{c07Chain, "verif-c07-other"}[which]
}

type c07Env struct {
	keys     []crypto.PrivKey // pool of keys; key i is validator "i" before sorting
	outsider crypto.PrivKey
	blocks   [5]BlockID // 0 genuine, 1 other, 2 same hash other parts, 3 genuine hash without part-set header, 4 genuine part-set header without hash
	ts       time.Time
	sigCache map[string][]byte
	garbage  []byte
}

func newC07Env() *c07Env {
	e := &c07Env{sigCache: map[string][]byte{}, ts: time.Date(2022, 1, 1, 0, 0, 0, 0, time.UTC)}
	for i := 0; i < 5; i++ {
		e.keys = append(e.keys, ed25519.GenPrivKeyFromSecret([]byte(fmt.Sprintf("verif-c07-key-%d", i))))
	}
	e.outsider = ed25519.GenPrivKeyFromSecret([]byte("verif-c07-outsider"))
	h1 := crypto.Sha256([]byte("block-1"))
	h2 := crypto.Sha256([]byte("block-2"))
	p1 := crypto.Sha256([]byte("parts-1"))
	p2 := crypto.Sha256([]byte("parts-2"))
	e.blocks[0] = BlockID{Hash: h1, PartSetHeader: PartSetHeader{Total: 1, Hash: p1}}
	e.blocks[1] = BlockID{Hash: h2, PartSetHeader: PartSetHeader{Total: 1, Hash: p2}}
	e.blocks[2] = BlockID{Hash: h1, PartSetHeader: PartSetHeader{Total: 2, Hash: p2}}
	e.blocks[3] = BlockID{Hash: h1}
	e.blocks[4] = BlockID{PartSetHeader: PartSetHeader{Total: 1, Hash: p1}}
	e.garbage = make([]byte, 64)
	for i := range e.garbage {
		e.garbage[i] = byte(i*7 + 3)
	}
	return e
}

// what a signature was really made over
type c07Signed struct {
	chain  string
	height int64
	round  int32
	typ    tmproto.SignedMsgType
	block  int // index into blocks, -1 = nil
	signer crypto.PubKey
	ok     bool // false: garbage, proves nothing
}

func (e *c07Env) sign(k crypto.PrivKey, chain string, h int64, r int32, typ tmproto.SignedMsgType, block int) []byte {
	key := fmt.Sprintf("%X/%s/%d/%d/%d/%d", k.PubKey().Address(), chain, h, r, typ, block)
	if s, ok := e.sigCache[key]; ok {
		return s
	}
	v := &Vote{Type: typ, Height: h, Round: r, Timestamp: e.ts}
	if block >= 0 {
		v.BlockID = e.blocks[block]
	}
	sig, err := k.Sign(VoteSignBytes(chain, v.ToProto()))
	if err != nil {
		panic(err)
	}
	e.sigCache[key] = sig
	return sig
}

type c07Built struct {
	vals    *ValidatorSet
	keyOf   map[string]crypto.PrivKey // by address
	commit  *Commit
	truth   []c07Signed // per commit slot
	trusted *ValidatorSet
}

func (e *c07Env) build(c c07Case) (*c07Built, error) {
	n := len(c.Powers)
	b := &c07Built{keyOf: map[string]crypto.PrivKey{}}
	vs := make([]*Validator, n)
	for i := 0; i < n; i++ {
		vs[i] = NewValidator(e.keys[i].PubKey(), c.Powers[i])
		b.keyOf[string(vs[i].Address)] = e.keys[i]
	}
	b.keyOf[string(e.outsider.PubKey().Address())] = e.outsider
	b.vals = NewValidatorSet(vs)
	sigs := make([]CommitSig, 0, n+1)
	for i := 0; i < n; i++ {
		val := b.vals.Validators[i]
		k := b.keyOf[string(val.Address)]
		next := b.vals.Validators[(i+1)%n]
		nextKey := b.keyOf[string(next.Address)]
		if n == 1 {
			nextKey = e.outsider
			next = NewValidator(e.outsider.PubKey(), 1)
		}
		cs := CommitSig{BlockIDFlag: BlockIDFlagCommit, ValidatorAddress: val.Address, Timestamp: e.ts}
		tr := c07Signed{chain: c07ChainOf(c.ChainPair, 0), height: c07Height, round: c07Round, typ: tmproto.PrecommitType, block: 0, signer: k.PubKey(), ok: true}
		switch c.Kinds[i] {
		case c07Absent:
			cs = NewCommitSigAbsent()
			tr.ok = false
		case c07ForBlock:
		case c07NilValid:
			cs.BlockIDFlag = BlockIDFlagNil
			tr.block = -1
		case c07OtherBlock:
			tr.block = 1
		case c07WrongKey:
			tr.signer = nextKey.PubKey()
			k = nextKey
		case c07Garbage:
			tr.ok = false
		case c07NilBadSig:
			cs.BlockIDFlag = BlockIDFlagNil
			tr.ok = false
		case c07OtherChain:
			tr.chain = c07ChainOf(c.ChainPair, 1)
		case c07OtherHeight:
			tr.height++
		case c07OtherRound:
			tr.round++
		case c07FlagNilSigBlock:
			cs.BlockIDFlag = BlockIDFlagNil
		case c07FlagCommitSigNil:
			tr.block = -1
		case c07Borrowed:
			cs.ValidatorAddress = next.Address
			tr.signer = nextKey.PubKey()
			k = nextKey
		case c07OtherType:
			tr.typ = tmproto.PrevoteType
		case c07PSHOnly:
			tr.block = 2
		case c07HashOnlyID:
			tr.block = 3
		case c07PartsOnlyID:
			tr.block = 4
		default:
			return nil, fmt.Errorf("bad kind")
		}
		if cs.BlockIDFlag != BlockIDFlagAbsent {
			if tr.ok {
				cs.Signature = e.sign(k, tr.chain, tr.height, tr.round, tr.typ, tr.block)
			} else {
				cs.Signature = e.garbage
			}
		}
		sigs = append(sigs, cs)
		b.truth = append(b.truth, tr)
	}
	switch c.ExtraSlot {
	case 1:
		sigs = append(sigs, NewCommitSigAbsent())
		b.truth = append(b.truth, c07Signed{})
	case 2:
		sigs = append(sigs, CommitSig{BlockIDFlag: BlockIDFlagCommit, ValidatorAddress: e.outsider.PubKey().Address(), Timestamp: e.ts,
			Signature: e.sign(e.outsider, c07ChainOf(c.ChainPair, 0), c07Height, c07Round, tmproto.PrecommitType, 0)})
		b.truth = append(b.truth, c07Signed{chain: c07ChainOf(c.ChainPair, 0), height: c07Height, round: c07Round, typ: tmproto.PrecommitType, block: 0, signer: e.outsider.PubKey(), ok: true})
	case -1:
		sigs = sigs[:len(sigs)-1]
		b.truth = b.truth[:len(b.truth)-1]
	}
	b.commit = &Commit{Height: c07Height + c.CommitHeight, Round: c07Round + c.CommitRound, BlockID: e.blocks[c.CommitBlock], Signatures: sigs}
	if len(c.TrustedKeys) > 0 {
		tv := []*Validator{}
		for j, ki := range c.TrustedKeys {
			pk := e.outsider.PubKey()
			if ki < 100 {
				pk = e.keys[ki].PubKey()
			}
			tv = append(tv, NewValidator(pk, c.TrustedPowers[j]))
		}
		b.trusted = NewValidatorSet(tv)
	} else {
		b.trusted = b.vals
	}
	if c.WireTotal != 0 {
		wire := func(vs *ValidatorSet) *ValidatorSet {
			vp, err := vs.ToProto()
			if err != nil {
				return vs
			}
			vp.TotalVotingPower = c.WireTotal
			out, err := ValidatorSetFromProto(vp)
			if err != nil {
				return vs
			}
			return out
		}
		same := b.trusted == b.vals
		b.vals = wire(b.vals)
		if same {
			b.trusted = b.vals
		} else {
			b.trusted = wire(b.trusted)
		}
	}
	return b, nil
}

// counts says whether the slot is a for-block signature by `pk` over exactly (chain, h, r, block).
func (b *c07Built) counts(i int, pk crypto.PubKey, chain string, h int64, r int32, blk BlockID, e *c07Env) bool {
	cs, tr := b.commit.Signatures[i], b.truth[i]
	if cs.BlockIDFlag != BlockIDFlagCommit || !tr.ok || tr.block < 0 {
		return false
	}
	return tr.signer.Equals(pk) && tr.chain == chain && tr.height == h && tr.round == r &&
		tr.typ == tmproto.PrecommitType && e.blocks[tr.block].Equals(blk)
}

// c07Total is the reference's own total: the sum of the members' powers (the set's cached total is part of what is under test).
func c07Total(vs *ValidatorSet) int64 {
	var t int64
	for _, v := range vs.Validators {
		t += v.VotingPower
	}
	return t
}

func c07Exceeds(sum *big.Int, num, den uint64, total int64) bool {
	// sum/total > num/den  <=>  sum*den > num*total
	l := new(big.Int).Mul(sum, new(big.Int).SetUint64(den))
	r := new(big.Int).Mul(new(big.Int).SetUint64(num), big.NewInt(total))
	return l.Cmp(r) > 0
}

func c07Safe(f func() error) (err error, panicked bool) {
	defer func() {
		if x := recover(); x != nil {
			err, panicked = fmt.Errorf("panic: %v", x), true
		}
	}()
	return f(), false
}

// run evaluates one case against all three entry points. It returns "" or a violation (key, what).
func (e *c07Env) run(r *vr.Report, c c07Case) (key, what string) {
	b, err := e.build(c)
	if err != nil {
		panic(err)
	}
	chain := c07ChainOf(c.ChainPair, c.CallerChain)
	callerH := c07Height + c.CallerHeight
	callerB := e.blocks[c.CallerBlock]

	// reference for the index-based variants: slot i counts for validator i of the set
	sumIdx := new(big.Int)
	allValid := true
	for i := range b.commit.Signatures {
		if i < b.vals.Size() {
			if b.counts(i, b.vals.Validators[i].PubKey, chain, callerH, b.commit.Round, callerB, e) {
				sumIdx.Add(sumIdx, big.NewInt(b.vals.Validators[i].VotingPower))
			}
		}
	}
	for _, k := range c.Kinds {
		if k != c07Absent && k != c07ForBlock && k != c07NilValid {
			allValid = false
		}
	}
	plain := allValid && c.ExtraSlot == 0 && c.CommitHeight == 0 && c.CommitRound == 0 && c.CommitBlock == 0 &&
		c.CallerHeight == 0 && c.CallerBlock == 0 && c.CallerChain == 0
	refIdx := c07Exceeds(sumIdx, 2, 3, c07Total(b.vals))

	errFull, p1 := c07Safe(func() error { return b.vals.VerifyCommit(chain, callerB, callerH, b.commit) })
	errLight, p2 := c07Safe(func() error { return b.vals.VerifyCommitLight(chain, callerB, callerH, b.commit) })
	if p1 || p2 {
		r.Add("panics_on_malformed_commit", 1)
	}
	if errFull == nil && !refIdx {
		return "VerifyCommit:accepts-without-two-thirds", fmt.Sprintf("VerifyCommit accepted; valid for-block power %v of total %d", sumIdx, c07Total(b.vals))
	}
	if errLight == nil && !refIdx {
		return "VerifyCommitLight:accepts-without-two-thirds", fmt.Sprintf("VerifyCommitLight accepted; valid for-block power %v of total %d", sumIdx, c07Total(b.vals))
	}
	if plain {
		if (errFull == nil) != refIdx {
			return "VerifyCommit:rejects-valid-commit", fmt.Sprintf("all-valid commit with for-block power %v of %d: VerifyCommit says %v", sumIdx, c07Total(b.vals), errFull)
		}
		if (errLight == nil) != refIdx {
			return "VerifyCommitLight:disagrees-on-valid-commit", fmt.Sprintf("all-valid commit with for-block power %v of %d: VerifyCommitLight says %v", sumIdx, c07Total(b.vals), errLight)
		}
	}

	// trusting variant: the "given" chain id is the caller's, height/round/block are the commit's own
	num, den := c.Num, c.Den
	if den == 0 && num == 0 {
		num, den = 2, 3
	}
	sumT := new(big.Int)
	for vi, v := range b.trusted.Validators {
		_ = vi
		for i, cs := range b.commit.Signatures {
			if string(cs.ValidatorAddress) == string(v.Address) &&
				b.counts(i, v.PubKey, chain, b.commit.Height, b.commit.Round, b.commit.BlockID, e) {
				sumT.Add(sumT, big.NewInt(v.VotingPower))
				break // each member counts once
			}
		}
	}
	errTr, p3 := c07Safe(func() error {
		return b.trusted.VerifyCommitLightTrusting(chain, b.commit, tmmath.Fraction{Numerator: num, Denominator: den})
	})
	if p3 {
		r.Add("panics_on_malformed_commit", 1)
	}
	refTr := den != 0 && c07Exceeds(sumT, num, den, c07Total(b.trusted))
	if errTr == nil && !refTr {
		return "VerifyCommitLightTrusting:accepts-below-trust-level", fmt.Sprintf("trusting variant accepted at %d/%d; valid distinct for-block power %v of trusted total %d", num, den, sumT, c07Total(b.trusted))
	}
	if plain && len(c.TrustedKeys) == 0 && num == 2 && den == 3 && (errTr == nil) != refIdx {
		return "VerifyCommitLightTrusting:disagrees-on-valid-commit", fmt.Sprintf("all-valid commit, same set, 2/3: trusting says %v, reference %v", errTr, refIdx)
	}
	if errFull == nil {
		r.Outcome("full:accept")
	} else {
		r.Outcome("full:reject")
	}
	if errLight == nil {
		r.Outcome("light:accept")
	} else {
		r.Outcome("light:reject")
	}
	if errTr == nil {
		r.Outcome("trusting:accept")
	} else {
		r.Outcome("trusting:reject")
	}
	return "", ""
}

func c07Describe(c c07Case) map[string]interface{} {
	ks := []string{}
	for _, k := range c.Kinds {
		ks = append(ks, c07KindNames[k])
	}
	return map[string]interface{}{"powers": c.Powers, "slots": ks, "case": c}
}

// odometer over kinds
func c07EachKinds(n int, menu []int, f func([]int)) {
	idx := make([]int, n)
	for {
		ks := make([]int, n)
		for i := range idx {
			ks[i] = menu[idx[i]]
		}
		f(ks)
		i := 0
		for ; i < n; i++ {
			idx[i]++
			if idx[i] < len(menu) {
				break
			}
			idx[i] = 0
		}
		if i == n {
			return
		}
	}
}

// non-decreasing power vectors over the menu whose sum is within the limit
func c07EachPowers(n int, menu []int64, f func([]int64)) {
	var rec func(start int, cur []int64)
	rec = func(start int, cur []int64) {
		if len(cur) == n {
			sum := new(big.Int)
			for _, p := range cur {
				sum.Add(sum, big.NewInt(p))
			}
			if sum.Cmp(big.NewInt(MaxTotalVotingPower)) <= 0 {
				f(append([]int64{}, cur...))
			}
			return
		}
		for i := start; i < len(menu); i++ {
			rec(i, append(cur, menu[i]))
		}
	}
	rec(0, nil)
}

func TestVerifC07(t *testing.T) {
	r := vr.Start("C07", "commit", 150*time.Second, 25*time.Minute)
	defer r.Finish()
	r.Rule = "odometer over (power multiset from a boundary menu, per-slot signature kind from a 17-kind menu, structural edit, trust fraction, trusted set); " +
		"every tuple is distinct by construction; non-trivial = at least one slot or edit differs from a plain valid for-block signature"
	r.Assume("ed25519 verification is a black box; ground truth about each slot is known because the harness signed it")
	r.Assume("trust-level numerators are < 2^63 (the API takes uint64 and casts to int64)")
	e := newC07Env()
	var rc c07Case
	if rep, skip := r.ReplayCase(&rc); skip {
		return
	} else if rep {
		r.Eval()
		if k, w := e.run(r, rc); k != "" {
			r.Violation(k, w, rc)
		}
		return
	}
	k := 0
	try := func(c c07Case) bool {
		k++
		if !r.Mine(k) {
			return true
		}
		if k%4096 == 0 && r.Deadline("C07 enumeration") {
			return false
		}
		r.Eval()
		triv := c.ExtraSlot == 0 && c.CommitHeight == 0 && c.CommitRound == 0 && c.CommitBlock == 0 && c.CallerHeight == 0 &&
			c.CallerBlock == 0 && c.CallerChain == 0 && len(c.TrustedKeys) == 0 && c.Den == 0 && c.ChainPair == 0
		for _, kd := range c.Kinds {
			if kd != c07ForBlock {
				triv = false
			}
		}
		if !triv {
			r.NTCount(1)
		}
		if key, what := e.run(r, c); key != "" {
			first := fmt.Errorf("%s", key)
			if !vr.Confirm(3, first, func() error {
				k2, _ := e.run(r, c)
				if k2 == "" {
					return nil
				}
				return fmt.Errorf("%s", k2)
			}) {
				panic("C07 harness nondeterministic on " + fmt.Sprint(c))
			}
			r.Violation(key, what, c)
		}
		if k%50000 == 1 {
			r.Sample(c07Describe(c))
		}
		return true
	}
	M := MaxTotalVotingPower
	powerMenu := []int64{1, 2, 3, 10, M / 3, M - 3}
	allKinds := make([]int, c07NKinds)
	for i := range allKinds {
		allKinds[i] = i
	}
	smallKinds := []int{c07Absent, c07ForBlock, c07NilValid, c07OtherBlock, c07WrongKey, c07Garbage, c07Borrowed}
	maxFull := vr.Pick(3, 4)
	ok := true
	// 1. powers x kinds
	for n := 1; n <= 4 && ok; n++ {
		menu := allKinds
		if n > maxFull {
			menu = smallKinds
		}
		c07EachPowers(n, powerMenu, func(pw []int64) {
			if !ok {
				return
			}
			c07EachKinds(n, menu, func(ks []int) {
				if !ok {
					return
				}
				ok = try(c07Case{Powers: pw, Kinds: ks})
			})
		})
	}
	r.Bound = fmt.Sprintf("n<=4; all 17 slot kinds for n<=%d, 7 kinds for larger n; power menu %v", maxFull, powerMenu)
	// 2. structural edits over small all-valid and mixed bases
	basePowers := [][]int64{{1}, {1, 1}, {1, 1, 1}, {2, 1, 1}, {1, 1, 1, 1}, {3, 2, 1, 1}, {M / 3, M / 3, M / 3}}
	editKinds := []int{c07Absent, c07ForBlock, c07NilValid}
	for _, pw := range basePowers {
		c07EachKinds(len(pw), editKinds, func(ks []int) {
			for _, extra := range []int{0, 1, 2, -1} {
				if extra == -1 && len(pw) == 1 {
					continue
				}
				kk := ks
				for _, ch := range []int64{0, 1, -1} {
					for _, cr := range []int32{0, 1} {
						for cb := 0; cb < 3; cb++ {
							for _, clh := range []int64{0, 1} {
								for clb := 0; clb < 3; clb++ {
									for cc := 0; cc < 2; cc++ {
										if !ok {
											return
										}
										ok = try(c07Case{Powers: pw, Kinds: kk, ExtraSlot: extra, CommitHeight: ch, CommitRound: cr,
											CommitBlock: cb, CallerHeight: clh, CallerBlock: clb, CallerChain: cc})
									}
								}
							}
						}
					}
				}
			}
		})
	}
	// 2b. incomplete block ids (a hash without a part-set header, a part-set header without a hash) as the commit's and the caller's
	// block id, over slots signed for the block, for nil (flagged nil or flagged for-the-block) or for those incomplete ids
	incKinds := []int{c07Absent, c07ForBlock, c07NilValid, c07FlagCommitSigNil, c07HashOnlyID, c07PartsOnlyID}
	for _, pw := range [][]int64{{1}, {1, 1}, {1, 1, 1}, {2, 1, 1}} {
		c07EachKinds(len(pw), incKinds, func(ks []int) {
			for _, cb := range []int{0, 3, 4} {
				for _, clb := range []int{0, 3, 4} {
					if !ok || (cb == 0 && clb == 0) {
						continue
					}
					ok = try(c07Case{Powers: pw, Kinds: ks, CommitBlock: cb, CallerBlock: clb})
				}
			}
		})
	}
	// 2c. sets that arrived over the wire with a forged total_voting_power (the field is not covered by the validators hash)
	for _, pw := range [][]int64{{1, 1, 1, 1}, {2, 1, 1}, {10, 10, 10, 10}} {
		c07EachKinds(len(pw), []int{c07Absent, c07ForBlock, c07NilValid}, func(ks []int) {
			for _, wt := range []int64{1, 2, pw[0] + 1, 1 << 40} {
				for _, fr := range [][2]uint64{{0, 0}, {1, 3}} {
					if !ok {
						return
					}
					ok = try(c07Case{Powers: pw, Kinds: ks, WireTotal: wt, Num: fr[0], Den: fr[1]})
				}
			}
		})
	}
	// 2d. chain ids at and beyond MaxChainIDLen: the genuine and the other chain id share their first MaxChainIDLen bytes (nothing in
	// the verification path bounds the caller's chain id), or have exactly that length and differ in the last byte
	for pair := 1; pair <= 3; pair++ {
		for _, pw := range [][]int64{{1}, {1, 1, 1}, {2, 1, 1}, {1, 1, 1, 1}} {
			c07EachKinds(len(pw), []int{c07Absent, c07ForBlock, c07NilValid, c07OtherChain}, func(ks []int) {
				for cc := 0; cc < 2; cc++ {
					for _, fr := range [][2]uint64{{0, 0}, {1, 3}} {
						if !ok {
							return
						}
						ok = try(c07Case{Powers: pw, Kinds: ks, CallerChain: cc, ChainPair: pair, Num: fr[0], Den: fr[1]})
					}
				}
			})
		}
	}
	// 3. trust fractions x trusted sets (overlapping, different powers) x kinds
	fracs := [][2]uint64{{1, 3}, {1, 2}, {2, 3}, {1, 1}, {0, 1}, {1, 0}, {3, 2}, {1<<63 - 1, 1}, {1<<63 - 1, 1<<63 - 1}}
	type tset struct {
		keys []int
		pows []int64
	}
	for _, n := range []int{2, 3, 4} {
		pw := make([]int64, n)
		for i := range pw {
			pw[i] = int64(1 + i%2)
		}
		tsets := []tset{{}}
		for mask := 1; mask < (1 << n); mask++ {
			for _, withOut := range []bool{false, true} {
				for _, skew := range []int64{1, 3, M / 4} {
					ts := tset{}
					for i := 0; i < n; i++ {
						if mask&(1<<i) != 0 {
							ts.keys = append(ts.keys, i)
							p := int64(1)
							if len(ts.keys) == 1 {
								p = skew
							}
							ts.pows = append(ts.pows, p)
						}
					}
					if withOut {
						ts.keys = append(ts.keys, 100)
						ts.pows = append(ts.pows, 2)
					}
					tsets = append(tsets, ts)
				}
			}
		}
		menu := allKinds
		if n == 4 || (n == 3 && !vr.Thorough()) {
			menu = smallKinds
		}
		c07EachKinds(n, menu, func(ks []int) {
			for _, ts := range tsets {
				for _, f := range fracs {
					for _, extra := range []int{0, 2} {
						if !ok {
							return
						}
						ok = try(c07Case{Powers: pw, Kinds: ks, Num: f[0], Den: f[1], TrustedKeys: ts.keys, TrustedPowers: ts.pows, ExtraSlot: extra})
					}
				}
			}
		})
	}
}
