package types

// C01 (quorum arithmetic) — the real VoteSet reports a +2/3 majority for a block exactly when the votes for
// that block, from distinct validators, hold strictly more than two thirds of the set's total power, and the
// first value that got there sticks. Exhaustive over small validator sets (every power vector over a small
// domain, plus vectors next to the largest permitted total), every assignment of a vote (none / A / B / nil)
// to every validator, and every order of adding the votes; judged by a big-integer reference after every add.

import (
	"fmt"
	"math/big"
	"os"
	"testing"
	"time"

	"github.com/tendermint/tendermint/crypto"
	"github.com/tendermint/tendermint/crypto/ed25519"
	"github.com/tendermint/tendermint/internal/verif/vr"
	tmproto "github.com/tendermint/tendermint/proto/tendermint/types"
)

type c01qCase struct {
	Powers []int64 `json:"powers"` // by key
	Votes  []int   `json:"votes"`  // by key: 0 none, 1 block A, 2 block B, 3 nil
	Order  []int   `json:"order"`  // keys in the order their votes are added
	Type   int     `json:"type"`   // 1 prevote, 2 precommit
}

type c01qEnv struct {
	keys   []crypto.PrivKey
	blocks [2]BlockID
	ts     time.Time
	votes  map[string]*Vote
}

func newC01qEnv() *c01qEnv {
	e := &c01qEnv{ts: time.Date(2022, 1, 1, 0, 0, 0, 0, time.UTC), votes: map[string]*Vote{}}
	for i := 0; i < 5; i++ {
		e.keys = append(e.keys, ed25519.GenPrivKeyFromSecret([]byte(fmt.Sprintf("verif-c01q-key-%d", i))))
	}
	for i := range e.blocks {
		e.blocks[i] = BlockID{Hash: crypto.Sha256([]byte{byte('A' + i)}), PartSetHeader: PartSetHeader{Total: 1, Hash: crypto.Sha256([]byte{byte('a' + i)})}}
	}
	return e
}

func (e *c01qEnv) vote(key int, idx int32, typ tmproto.SignedMsgType, what int) *Vote {
	k := fmt.Sprintf("%d/%d/%d/%d", key, idx, typ, what)
	if v, ok := e.votes[k]; ok {
		return v
	}
	v := &Vote{Type: typ, Height: 3, Round: 1, Timestamp: e.ts, ValidatorAddress: e.keys[key].PubKey().Address(), ValidatorIndex: idx}
	if what == 1 || what == 2 {
		v.BlockID = e.blocks[what-1]
	}
	if what == 4 {
		v.BlockID = BlockID{Hash: e.blocks[0].Hash, PartSetHeader: PartSetHeader{Total: 2, Hash: crypto.Sha256([]byte("other-parts"))}}
	}
	sig, err := e.keys[key].Sign(VoteSignBytes("verif-c01q", v.ToProto()))
	if err != nil {
		panic(err)
	}
	v.Signature = sig
	e.votes[k] = v
	return v
}

// run returns a violation ("" = none) and whether a +2/3 majority for a block was reached.
func (e *c01qEnv) run(c c01qCase) (key, what string, reached bool) {
	n := len(c.Powers)
	vals := make([]*Validator, n)
	for i := range vals {
		vals[i] = NewValidator(e.keys[i].PubKey(), c.Powers[i])
	}
	vs := NewValidatorSet(vals)
	total := new(big.Int)
	for _, p := range c.Powers {
		total.Add(total, big.NewInt(p))
	}
	typ := tmproto.SignedMsgType(c.Type)
	set := NewVoteSet("verif-c01q", 3, 1, typ, vs)
	tally := [4]*big.Int{new(big.Int), new(big.Int), new(big.Int), new(big.Int)}
	all := new(big.Int)
	more := func(x *big.Int) bool { // 3x > 2 total
		return new(big.Int).Mul(x, big.NewInt(3)).Cmp(new(big.Int).Mul(total, big.NewInt(2))) > 0
	}
	maj := 0 // the value that first got +2/3 (1 A, 2 B, 3 nil)
	for step, k := range c.Order {
		if c.Votes[k] == 0 {
			continue
		}
		idx, _ := vs.GetByAddress(e.keys[k].PubKey().Address())
		added, err := set.AddVote(e.vote(k, idx, typ, c.Votes[k]))
		if err != nil || !added {
			return "types/vote_set.go:AddVote:refuses-a-valid-first-vote", fmt.Sprintf("step %d: added=%v err=%v", step, added, err), false
		}
		p := big.NewInt(c.Powers[k])
		tally[c.Votes[k]].Add(tally[c.Votes[k]], p)
		all.Add(all, p)
		if maj == 0 && more(tally[c.Votes[k]]) {
			maj = c.Votes[k]
		}
		bid, ok := set.TwoThirdsMajority()
		want := BlockID{}
		if maj == 1 || maj == 2 {
			want = e.blocks[maj-1]
		}
		switch {
		case ok && maj == 0:
			return "types/vote_set.go:addVerifiedVote:majority-reported-without-more-than-two-thirds", fmt.Sprintf("after step %d (votes for A %v, B %v, nil %v of total %v) the vote set reports a +2/3 majority for %X",
				step, tally[1], tally[2], tally[3], total, bid.Hash), false
		case !ok && maj != 0:
			return "types/vote_set.go:addVerifiedVote:majority-not-reported-with-more-than-two-thirds", fmt.Sprintf("after step %d (votes for A %v, B %v, nil %v of total %v) the vote set reports no +2/3 majority",
				step, tally[1], tally[2], tally[3], total), false
		case ok && !bid.Equals(want):
			return "types/vote_set.go:addVerifiedVote:majority-for-another-value", fmt.Sprintf("after step %d the vote set reports +2/3 for %X, the reference for %X", step, bid.Hash, want.Hash), false
		}
		if set.HasTwoThirdsMajority() != ok {
			return "types/vote_set.go:HasTwoThirdsMajority:disagrees-with-TwoThirdsMajority", fmt.Sprintf("after step %d", step), false
		}
		if set.HasTwoThirdsAny() != more(all) {
			return "types/vote_set.go:HasTwoThirdsAny:wrong", fmt.Sprintf("after step %d: %v of %v voted, HasTwoThirdsAny=%v", step, all, total, set.HasTwoThirdsAny()), false
		}
		if typ == tmproto.PrecommitType && ok && (maj == 1 || maj == 2) {
			// the commit made from the set must itself verify
			cm := set.MakeCommit()
			if err := vs.VerifyCommit("verif-c01q", want, 3, cm); err != nil {
				return "types/vote_set.go:MakeCommit:commit-of-a-majority-does-not-verify", err.Error(), false
			}
		}
	}
	return "", "", maj == 1 || maj == 2
}

// ---- phase 2: duplicates, equivocation and peer majority claims -------------------------------------------------------
//
// Operation sequences over: vote(v, X) for every validator v and X in {A, B, nil} — repeated deliveries and votes for a second
// value by the same validator included — and claim(X), a peer's +2/3 claim for X (which makes the set keep conflicting votes
// for X). Judged after every operation, one direction only (what safety needs): a value the set reports as having +2/3 really
// has it among the DISTINCT validators whose vote for that value was delivered; nobody is listed for a value it never voted
// for; "+2/3 of any" is backed by distinct voters. A further operation is a vote that carries its signer's address and signature
// but another validator's index: it must never be admitted.

type c01qOp struct {
	V    int `json:"v"` // validator (by key); -1: peer claim
	What int `json:"x"` // 1 A, 2 B, 3 nil, 4 A' (the hash of A with another part-set header: a different value)
	As   int `json:"as,omitempty"` // k+1: the vote carries V's own address and signature but the index of validator k (a forged slot)
}

type c01qSeqCase struct {
	Powers []int64  `json:"powers"`
	Ops    []c01qOp `json:"ops"`
	Type   int      `json:"type"`
}

func (e *c01qEnv) runSeq(c c01qSeqCase) (key, what string, nontrivial bool) {
	n := len(c.Powers)
	vals := make([]*Validator, n)
	for i := range vals {
		vals[i] = NewValidator(e.keys[i].PubKey(), c.Powers[i])
	}
	vs := NewValidatorSet(vals)
	var total int64
	for _, p := range c.Powers {
		total += p
	}
	typ := tmproto.SignedMsgType(c.Type)
	set := NewVoteSet("verif-c01q", 3, 1, typ, vs)
	voted := [5]map[int]bool{nil, {}, {}, {}, {}} // value -> validators (by key) whose vote for it was delivered
	anyVoted := map[int]bool{}
	power := func(m map[int]bool) int64 {
		var s int64
		for k := range m {
			s += c.Powers[k]
		}
		return s
	}
	idxOf := make([]int32, n)
	for k := 0; k < n; k++ {
		idxOf[k], _ = vs.GetByAddress(e.keys[k].PubKey().Address())
	}
	for step, op := range c.Ops {
		if op.V < 0 {
			_ = set.SetPeerMaj23("verif-peer", e.blocks[op.What-1])
			nontrivial = true
		} else {
			if op.As > 0 {
				// signed by V, placed in somebody else's slot: must never be admitted (nor counted: the oracles below)
				nontrivial = true
				if added, _ := set.AddVote(e.vote(op.V, idxOf[op.As-1], typ, op.What)); added {
					return "types/vote_set.go:addVote:vote-admitted-in-another-validators-slot", fmt.Sprintf("step %d of %v: validator key %d's vote was added under the index of validator key %d", step, c.Ops, op.V, op.As-1), nontrivial
				}
				continue
			}
			_, _ = set.AddVote(e.vote(op.V, idxOf[op.V], typ, op.What)) // conflicting / duplicate deliveries may be refused: both fine
			if voted[op.What][op.V] || (anyVoted[op.V] && !voted[op.What][op.V]) {
				nontrivial = true
			}
			voted[op.What][op.V] = true
			anyVoted[op.V] = true
		}
		if bid, ok := set.TwoThirdsMajority(); ok {
			x := 3
			for i := range e.blocks {
				if bid.Equals(e.blocks[i]) {
					x = i + 1
				}
			}
			if x == 3 && !bid.IsZero() {
				x = 4
			}
			// the commit made from a precommit set that has a +2/3 value must itself verify for that value (the next height's
			// proposers put it into their blocks as LastCommit)
			if typ == tmproto.PrecommitType && !bid.IsZero() {
				if err, pan := c01qSafe(func() error { return vs.VerifyCommit("verif-c01q", bid, 3, set.MakeCommit()) }); err != nil {
					return "types/vote_set.go:MakeCommit:commit-of-a-two-thirds-precommit-set-does-not-verify", fmt.Sprintf("after step %d of %v: %v (panic=%v)", step, c.Ops, err, pan), nontrivial
				}
			}
			if 3*power(voted[x]) <= 2*total {
				return "types/vote_set.go:addVerifiedVote:majority-reported-without-two-thirds-of-distinct-voters",
					fmt.Sprintf("after step %d of %v: +2/3 reported for value %d, the distinct validators whose vote for it was delivered hold %d of %d", step, c.Ops, x, power(voted[x]), total), nontrivial
			}
		}
		// the other direction of "backed by +2/3 precommits": whatever commit for A or B can be put together from the precommits
		// the set holds (for-block slots for that block, nil slots as nil, everything else absent) verifies only if the
		// distinct validators that precommitted that block hold more than two thirds
		if typ == tmproto.PrecommitType {
			for x := 1; x <= 2; x++ {
				sigs := make([]CommitSig, n)
				any := false
				for i := 0; i < n; i++ {
					sigs[i] = NewCommitSigAbsent()
					v := set.GetByIndex(int32(i))
					if v == nil {
						continue
					}
					if v.BlockID.Equals(e.blocks[x-1]) || v.BlockID.IsZero() {
						sigs[i] = v.CommitSig()
						any = true
					}
				}
				if !any {
					continue
				}
				cm := NewCommit(3, 1, e.blocks[x-1], sigs)
				if err, _ := c01qSafe(func() error { return vs.VerifyCommit("verif-c01q", e.blocks[x-1], 3, cm) }); err == nil && 3*power(voted[x]) <= 2*total {
					return "types/validator_set.go:VerifyCommit:commit-assembled-from-the-sets-precommits-verifies-without-two-thirds-for-the-block",
						fmt.Sprintf("after step %d of %v: a commit for value %d made of the set's for-block and nil precommits verifies; the validators that precommitted it hold %d of %d", step, c.Ops, x, power(voted[x]), total), nontrivial
				}
			}
		}
		if set.HasTwoThirdsAny() && 3*power(anyVoted) <= 2*total {
			return "types/vote_set.go:HasTwoThirdsAny:without-two-thirds-of-distinct-voters", fmt.Sprintf("after step %d of %v: distinct voters hold %d of %d", step, c.Ops, power(anyVoted), total), nontrivial
		}
		for x := 1; x <= 2; x++ {
			if ba := set.BitArrayByBlockID(e.blocks[x-1]); ba != nil {
				for k := 0; k < n; k++ {
					if ba.GetIndex(int(idxOf[k])) && !voted[x][k] {
						return "types/vote_set.go:BitArrayByBlockID:lists-a-validator-that-never-voted-for-the-block", fmt.Sprintf("after step %d of %v: validator key %d", step, c.Ops, k), nontrivial
					}
				}
			}
		}
	}
	return "", "", nontrivial
}

func c01qSafe(f func() error) (err error, panicked bool) {
	defer func() {
		if x := recover(); x != nil {
			err, panicked = fmt.Errorf("panic: %v", x), true
		}
	}()
	return f(), false
}

func c01qPerms(n int, f func([]int)) {
	p := make([]int, n)
	for i := range p {
		p[i] = i
	}
	var rec func(k int)
	rec = func(k int) {
		if k == n {
			f(append([]int{}, p...))
			return
		}
		for i := k; i < n; i++ {
			p[k], p[i] = p[i], p[k]
			rec(k + 1)
			p[k], p[i] = p[i], p[k]
		}
	}
	rec(0)
}

func TestVerifC01Quorum(t *testing.T) {
	// the same enumeration also serves C02 (a precommit is justified by the prevote majority the vote set reports): its check runs
	// this test with VERIF_C01Q_AS=C02 as its part "voteset"
	pid, part := "C01", "quorum"
	if os.Getenv("VERIF_C01Q_AS") == "C02" {
		pid, part = "C02", "voteset"
	}
	if os.Getenv("VERIF_C01Q_AS") == "C03" {
		pid, part = "C03", "lastcommit" // termination of the next height needs a LastCommit every proposer's block verifies with
	}
	r := vr.Start(pid, part, 60*time.Second, 10*time.Minute)
	defer r.Finish()
	r.Rule = "real VoteSet: (1) every power vector (n = 1..4 over {1,2,3}; n = 5 over {1,2}; vectors next to MaxTotalVotingPower) x every assignment none/A/B/nil per validator x every order of adding x prevote/precommit; " +
		"after every add the reported +2/3 majority, HasTwoThirdsAny and (for precommits) the commit made from the set are compared with a big-integer tally; a case = (powers, votes, order, type), all distinct; non-trivial = a +2/3 majority for a block is reached; (2) every operation sequence up to a length bound of votes (repeats, second values) and peer +2/3 claims: a reported majority is backed by distinct voters"
	r.Assume("ed25519 verification is memoised (a pure predicate): the same few dozen signed votes are verified in every case")
	ed25519.SetVerifMemo(true)
	var rc c01qCase
	e := newC01qEnv()
	var rs c01qSeqCase
	if rep, skip := r.ReplayCase(&rs); skip {
		return
	} else if rep && len(rs.Ops) > 0 {
		r.Eval()
		if k, w, _ := e.runSeq(rs); k != "" {
			r.Violation(k, w, rs)
		}
		return
	} else if rep {
		_, _ = r.ReplayCase(&rc)
		r.Eval()
		if k, w, _ := e.run(rc); k != "" {
			r.Violation(k, w, rc)
		}
		return
	}
	var vectors [][]int64
	var gen func(n int, dom []int64, cur []int64)
	gen = func(n int, dom []int64, cur []int64) {
		if len(cur) == n {
			vectors = append(vectors, append([]int64{}, cur...))
			return
		}
		for _, d := range dom {
			gen(n, dom, append(cur, d))
		}
	}
	for n := 1; n <= 4; n++ {
		gen(n, []int64{1, 2, 3}, nil)
	}
	gen(5, []int64{1, 2}, nil)
	m := MaxTotalVotingPower
	vectors = append(vectors, []int64{m / 3, m / 3, m / 3}, []int64{m/3 - 1, m / 3, m / 3}, []int64{m / 4, m / 4, m / 4, m / 4}, []int64{m/4 - 1, m / 4, m / 4, m / 4},
		[]int64{m - 2, 1, 1}, []int64{m / 2, m/2 - 1, 1}, []int64{m/5 - 1, m / 5, m / 5, m / 5, m / 5}, []int64{m / 5, m / 5, m / 5, m / 5, m / 5})
	ci := 0
	for _, pw := range vectors {
		n := len(pw)
		ci++
		if !r.Mine(ci) {
			continue
		}
		if r.Deadline("C01 quorum power vectors") {
			return
		}
		nAssign := 1
		for i := 0; i < n; i++ {
			nAssign *= 4
		}
		for a := 0; a < nAssign; a++ {
			votes := make([]int, n)
			for i, x := 0, a; i < n; i, x = i+1, x/4 {
				votes[i] = x % 4
			}
			bad := false
			c01qPerms(n, func(order []int) {
				if bad {
					return
				}
				// orders that differ only in where the non-voters stand are the same case
				for i := 1; i < n; i++ {
					if votes[order[i-1]] == 0 && votes[order[i]] == 0 && order[i-1] > order[i] {
						return
					}
					if votes[order[i-1]] == 0 && votes[order[i]] != 0 {
						return // non-voters last
					}
				}
				for _, typ := range []int{1, 2} {
					c := c01qCase{Powers: pw, Votes: votes, Order: order, Type: typ}
					r.Eval()
					key, what, reached := e.run(c)
					if reached {
						r.NTCount(1)
					}
					if key != "" {
						r.Outcome(key)
						r.Violation(key, what, c)
						bad = true
						return
					}
				}
			})
		}
		r.Outcome(fmt.Sprintf("n=%d:agrees-with-reference", n))
		if ci%40 == 0 {
			r.Sample(c01qCase{Powers: pw})
		}
	}
	// phase 2: sequences with duplicates, equivocation and peer claims
	maxLen := vr.Pick(5, 6)
	mineSeq := 0
	for _, pw := range [][]int64{{1, 1, 1}, {1, 1, 1, 1}, {2, 1, 1}} {
		n := len(pw)
		var alpha []c01qOp
		for v := 0; v < n; v++ {
			if n == 4 && v >= 2 && !vr.Thorough() {
				// validators 2 and 3 of the 4-set only vote for B (symmetry: they are interchangeable with 0 and 1 otherwise)
				alpha = append(alpha, c01qOp{V: v, What: 2})
				continue
			}
			for x := 1; x <= 3; x++ {
				alpha = append(alpha, c01qOp{V: v, What: x})
			}
		}
		alpha = append(alpha, c01qOp{V: -1, What: 1}, c01qOp{V: -1, What: 2})
		alpha = append(alpha, c01qOp{V: n - 1, What: 4}) // one validator votes for the hash of A with another part-set header
		if n == 3 || vr.Thorough() {
			// the last validator's vote for A under the indices of the first two
			alpha = append(alpha, c01qOp{V: n - 1, What: 1, As: 1}, c01qOp{V: n - 1, What: 1, As: 2})
		}
		seq := make([]c01qOp, 0, maxLen)
		stop := false
		var rec func()
		rec = func() {
			if stop {
				return
			}
			if len(seq) == maxLen {
				ci++
				if !r.Mine(ci) {
					return
				}
				mineSeq++
				if mineSeq%1024 == 0 && r.Deadline("C01 quorum sequences") {
					stop = true
					return
				}
				for _, typ := range []int{1, 2} {
					c := c01qSeqCase{Powers: pw, Ops: append([]c01qOp{}, seq...), Type: typ}
					r.Eval()
					key, what, nt := e.runSeq(c)
					if nt {
						r.NTCount(1)
					}
					if key != "" {
						r.Outcome(key)
						r.Violation(key, what, c)
						stop = true
						return
					}
				}
				return
			}
			for _, op := range alpha {
				seq = append(seq, op)
				rec()
				seq = seq[:len(seq)-1]
			}
		}
		rec()
		r.Outcome(fmt.Sprintf("sequences:n=%d:len=%d:sound", n, maxLen))
	}
	r.Bound = fmt.Sprintf("all listed power vectors x 4^n assignments x all orders x 2 vote types; all operation sequences of length %d (votes with repeats and equivocation, peer claims) over 3 and 4 validators", maxLen)
}
