// Package c13hand performs, for the block-sync harness parts of C13, the hand-over from block sync to
// consensus on the stores a sync left behind — through the exported production entry points only:
// consensus.NewState on the pre-sync state (what the node does at start), consensus.NewReactor(waitSync=true),
// and Reactor.SwitchToConsensus(state, skipWAL) (what every blockchain reactor calls when it is caught up),
// followed by a "restart": consensus.NewState on the post-sync state.
// Injected as github.com/tendermint/tendermint/internal/verif/c13hand.
package c13hand

import (
	"fmt"
	"net"
	"os"
	"path/filepath"
	"sync"
	"sync/atomic"
	"time"

	"github.com/gogo/protobuf/proto"

	cfg "github.com/tendermint/tendermint/config"
	"github.com/tendermint/tendermint/consensus"
	"github.com/tendermint/tendermint/crypto/ed25519"
	"github.com/tendermint/tendermint/internal/verif/c13kit"
	"github.com/tendermint/tendermint/libs/log"
	mpmock "github.com/tendermint/tendermint/mempool/mock"
	"github.com/tendermint/tendermint/libs/service"
	"github.com/tendermint/tendermint/p2p"
	"github.com/tendermint/tendermint/p2p/conn"
	bcproto "github.com/tendermint/tendermint/proto/tendermint/blockchain"
	sm "github.com/tendermint/tendermint/state"
	"github.com/tendermint/tendermint/types"
)

type Result struct {
	Called        bool   // SwitchToConsensus was invoked
	Height        int64  // state.LastBlockHeight it was invoked with
	SwitchPanic   string // panic value of SwitchToConsensus ("" = returned normally)
	RestartPanic  string // panic value of consensus.NewState on the post-sync state
	LastCommitN   int    // votes in the rebuilt LastCommit
	InvalidVotes  int    // of which do not verify under the canonical validator of their index
	NoTwoThirds   bool   // rebuilt LastCommit lacks +2/3
	ConsensusRuns bool   // the consensus state was running after the switch
	Cause         string // ground truth about the seen commit at Height: why its first bad slot is bad ("" = all slots valid)
}

var (
	walDir  string
	walOnce sync.Once
	walSeq  int64
)

// Cleanup removes the scratch WAL directory of this process.
func Cleanup() {
	if walDir != "" {
		_ = os.RemoveAll(walDir)
	}
}

func conf() *cfg.ConsensusConfig {
	walOnce.Do(func() {
		d, err := os.MkdirTemp("", "C13-wal-")
		if err != nil {
			panic(err)
		}
		walDir = d
	})
	c := cfg.TestConsensusConfig()
	c.TimeoutCommit = time.Hour // nothing is to happen between Start and Stop
	c.SkipTimeoutCommit = false
	c.SetWalFile(filepath.Join(walDir, fmt.Sprintf("wal-%d", atomic.AddInt64(&walSeq, 1)), "wal"))
	return c
}

// Reactor is registered in the switch under the name "CONSENSUS". The blockchain reactors look it up and call
// SwitchToConsensus on it when they consider themselves caught up; it forwards to a real consensus.Reactor
// under recover (in production the panic would kill the process from inside the blockchain reactor's routine).
type Reactor struct {
	p2p.BaseReactor
	chain *c13kit.Chain
	node  *c13kit.Node

	mtx  sync.Mutex
	res  Result
	Done chan struct{} // closed after the first SwitchToConsensus call has been processed
}

func NewReactor(chain *c13kit.Chain, node *c13kit.Node) *Reactor {
	r := &Reactor{chain: chain, node: node, Done: make(chan struct{})}
	r.BaseReactor = *p2p.NewBaseReactor("C13Consensus", r)
	return r
}

func (r *Reactor) Result() Result { r.mtx.Lock(); defer r.mtx.Unlock(); return r.res }

func safely(f func()) (p string) {
	defer func() {
		if x := recover(); x != nil {
			p = fmt.Sprint(x)
			if p == "" {
				p = "panic"
			}
		}
	}()
	f()
	return ""
}

// SwitchToConsensus has the signature of the consensusReactor interface of blockchain/v0, v1 and v2.
func (r *Reactor) SwitchToConsensus(state sm.State, skipWAL bool) {
	r.mtx.Lock()
	defer r.mtx.Unlock()
	if r.res.Called {
		return
	}
	r.res.Called = true
	r.res.Height = state.LastBlockHeight
	defer close(r.Done)
	if state.LastBlockHeight > 0 {
		r.res.Cause = r.chain.BadSlotCause(state.LastBlockHeight, r.node.BlockStore.LoadSeenCommit(state.LastBlockHeight))
	}

	bus := types.NewEventBus()
	bus.SetLogger(log.NewNopLogger())
	_ = bus.Start()
	defer bus.Stop() //nolint:errcheck

	var conS *consensus.State
	// the consensus state as the node created it at boot, before any block was synced
	if p := safely(func() {
		conS = consensus.NewState(conf(), r.node.Genesis.Copy(), r.node.BlockExec, r.node.BlockStore, mpmock.Mempool{}, sm.EmptyEvidencePool{})
	}); p != "" {
		r.res.SwitchPanic = "NewState(genesis): " + p
		return
	}
	conS.SetLogger(log.NewNopLogger())
	conS.SetEventBus(bus)
	conR := consensus.NewReactor(conS, true)
	conR.SetLogger(log.NewNopLogger())
	r.res.SwitchPanic = safely(func() { conR.SwitchToConsensus(state, skipWAL) })
	if r.res.SwitchPanic == "" {
		r.res.ConsensusRuns = conS.IsRunning()
		rs := conS.GetRoundState()
		if state.LastBlockHeight > 0 {
			r.inspect(rs.LastCommit, state.LastBlockHeight)
		}
	}
	if conS.IsRunning() {
		_ = conS.Stop()
		conS.Wait()
	}

	// restart on the same stores: the node loads its state and builds the consensus state from it
	r.res.RestartPanic = safely(func() {
		st, err := r.node.StateStore.Load()
		if err != nil {
			panic(err)
		}
		cs2 := consensus.NewState(conf(), st, r.node.BlockExec, r.node.BlockStore, mpmock.Mempool{}, sm.EmptyEvidencePool{})
		_ = cs2
	})
}

func (r *Reactor) inspect(vs *types.VoteSet, h int64) {
	if vs == nil {
		r.res.NoTwoThirds = true
		return
	}
	vals := r.chain.ValsAt(h)
	if !vs.HasTwoThirdsMajority() {
		r.res.NoTwoThirds = true
	}
	for i := 0; i < vals.Size(); i++ {
		v := vs.GetByIndex(int32(i))
		if v == nil {
			continue
		}
		r.res.LastCommitN++
		if err := v.Verify(c13kit.ChainID, vals.Validators[i].PubKey); err != nil {
			r.res.InvalidVotes++
		}
	}
}

// Verdict turns a hand-over result into ("", "") or a violation (key, what). prefix names the reactor.
func (res Result) Verdict(prefix string, tipLies string) (key, what string) {
	cause := res.Cause
	if cause == "" {
		cause = "seen-commit-fully-valid"
	}
	switch {
	case res.SwitchPanic != "":
		return prefix + ":handover-panics:" + cause,
			fmt.Sprintf("block sync finished at height %d; SwitchToConsensus panicked: %.300s (the commit stored with the last block came from a peer telling: %s)", res.Height, res.SwitchPanic, tipLies)
	case res.RestartPanic != "":
		return prefix + ":restart-panics:" + cause,
			fmt.Sprintf("consensus.NewState on the synced stores (height %d) panicked: %.300s", res.Height, res.RestartPanic)
	case res.NoTwoThirds:
		return prefix + ":handover-last-commit-without-two-thirds", "rebuilt LastCommit has no +2/3 majority"
	case res.InvalidVotes > 0:
		return prefix + ":handover-last-commit-holds-invalid-signature", fmt.Sprintf("%d of %d votes in the rebuilt LastCommit do not verify", res.InvalidVotes, res.LastCommitN)
	}
	return "", ""
}

// ---------------------------------------------------------------------------------------------
// harness peers and switch (shared by the v0, v1 and v2 parts)

// Peer is a p2p.Peer whose outgoing block requests are handed to the harness.
type Peer struct {
	service.BaseService
	PID       p2p.ID
	H         int64 // the height this peer offers (v0/v2: its whole range)
	K         int   // ordinal among the peers for that height
	Seq       int
	OnRequest func(p *Peer, height int64) bool
	OnStopped func(p *Peer)
	Asked     bool
	Resp      *c13kit.Response
}

var peerSeq int64

func NewPeer(h int64, k int, onReq func(*Peer, int64) bool, onStop func(*Peer)) *Peer {
	seq := int(atomic.AddInt64(&peerSeq, 1))
	p := &Peer{H: h, K: k, Seq: seq % 60000, OnRequest: onReq, OnStopped: onStop,
		PID: p2p.ID(fmt.Sprintf("%030x%02x%08x", 0xc13, h, seq))}
	p.BaseService = *service.NewBaseService(log.NewNopLogger(), "c13Peer", p)
	if err := p.Start(); err != nil {
		panic(err)
	}
	return p
}

func (p *Peer) OnStop() {
	if p.OnStopped != nil {
		p.OnStopped(p)
	}
}
func (p *Peer) FlushStop()           { _ = p.Stop() }
func (p *Peer) ID() p2p.ID           { return p.PID }
func (p *Peer) RemoteIP() net.IP     { return net.IPv4(127, 0, byte(p.Seq>>8), byte(p.Seq)) }
func (p *Peer) RemoteAddr() net.Addr { return &net.TCPAddr{IP: p.RemoteIP(), Port: 20000 + p.Seq%40000} }
func (p *Peer) IsOutbound() bool     { return true }
func (p *Peer) IsPersistent() bool   { return false }
func (p *Peer) CloseConn() error     { return nil }
func (p *Peer) NodeInfo() p2p.NodeInfo {
	return p2p.DefaultNodeInfo{DefaultNodeID: p.PID, ListenAddr: "127.0.0.1:1"}
}
func (p *Peer) Status() conn.ConnectionStatus { return conn.ConnectionStatus{} }
func (p *Peer) SocketAddr() *p2p.NetAddress {
	return p2p.NewNetAddressIPPort(p.RemoteIP(), uint16(20000+p.Seq%40000))
}
func (p *Peer) Send(byte, []byte) bool              { return true }
func (p *Peer) TrySend(byte, []byte) bool           { return true }
func (p *Peer) Set(string, interface{})             {}
func (p *Peer) Get(string) interface{}              { return nil }
func (p *Peer) SetRemovalFailed()                   {}
func (p *Peer) GetRemovalFailed() bool              { return false }
func (p *Peer) TrySendEnvelope(e p2p.Envelope) bool { return p.SendEnvelope(e) }
func (p *Peer) SendEnvelope(e p2p.Envelope) bool {
	if m, ok := e.Message.(*bcproto.BlockRequest); ok && p.OnRequest != nil {
		return p.OnRequest(p, m.Height)
	}
	return true
}

// NewSwitch returns a real, not started p2p.Switch over a real (not listening) transport.
func NewSwitch() *p2p.Switch {
	nodeKey := p2p.NodeKey{PrivKey: ed25519.GenPrivKeyFromSecret([]byte("verif-c13-node"))}
	ni := p2p.DefaultNodeInfo{DefaultNodeID: nodeKey.ID(), ListenAddr: "127.0.0.1:1", Network: c13kit.ChainID, Moniker: "c13"}
	tr := p2p.NewMultiplexTransport(ni, nodeKey, conn.DefaultMConnConfig())
	sw := p2p.NewSwitch(cfg.DefaultP2PConfig(), tr)
	sw.SetLogger(log.NewNopLogger())
	return sw
}

// Wire marshals a blockchain message the way a peer's connection delivers it.
func Wire(m *bcproto.Message) []byte {
	bz, err := proto.Marshal(m)
	if err != nil {
		panic(err)
	}
	return bz
}

// Restart is what a node does when it boots on the stores as they are now (also in the middle of a block sync:
// node.NewNode always builds the consensus state from the saved state): consensus.NewState(loaded state).
// It returns the panic text ("" = fine), the state height and the ground-truth cause for the seen commit there.
func Restart(chain *c13kit.Chain, node *c13kit.Node) (panicText string, height int64, cause string) {
	st, err := node.StateStore.Load()
	if err != nil {
		return "state store: " + err.Error(), 0, "state-unloadable"
	}
	height = st.LastBlockHeight
	if height == 0 {
		return "", 0, ""
	}
	cause = chain.BadSlotCause(height, node.BlockStore.LoadSeenCommit(height))
	panicText = safely(func() {
		_ = consensus.NewState(conf(), st, node.BlockExec, node.BlockStore, mpmock.Mempool{}, sm.EmptyEvidencePool{})
	})
	return
}
