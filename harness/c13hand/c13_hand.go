// Package c13hand performs, for the block-sync harness parts of C13, the hand-over from block sync to
// consensus on the stores a sync left behind — through the exported production entry points only:
// consensus.NewState on the pre-sync state (what the node does at start), consensus.NewReactor(waitSync=true),
// and Reactor.SwitchToConsensus(state, skipWAL) (what every blockchain reactor calls when it is caught up),
// followed by a "restart": consensus.NewState on the post-sync state.
// Injected as github.com/tendermint/tendermint/internal/verif/c13hand.
package c13hand

import (
	"fmt"
	"os"
	"path/filepath"
	"sync"
	"sync/atomic"
	"time"

	cfg "github.com/tendermint/tendermint/config"
	"github.com/tendermint/tendermint/consensus"
	"github.com/tendermint/tendermint/internal/verif/c13kit"
	"github.com/tendermint/tendermint/libs/log"
	mpmock "github.com/tendermint/tendermint/mempool/mock"
	"github.com/tendermint/tendermint/p2p"
	sm "github.com/tendermint/tendermint/state"
	"github.com/tendermint/tendermint/types"
)

type Result struct {
	Called        bool   // SwitchToConsensus was invoked
	Height        int64  // state.LastBlockHeight it was invoked with
	SwitchPanic   string // panic value of SwitchToConsensus ("" = returned normally)
	RestartPanic  string // panic value of consensus.NewState on the post-sync state
	LastCommitN   int    // votes in the rebuilt LastCommit
	InvalidVotes  int    // of which do not verify under the canonical validator of their index
	NoTwoThirds   bool   // rebuilt LastCommit lacks +2/3
	ConsensusRuns bool   // the consensus state was running after the switch
}

var (
	walDir  string
	walOnce sync.Once
	walSeq  int64
)

// Cleanup removes the scratch WAL directory of this process.
func Cleanup() {
	if walDir != "" {
		_ = os.RemoveAll(walDir)
	}
}

func conf() *cfg.ConsensusConfig {
	walOnce.Do(func() {
		d, err := os.MkdirTemp("", "C13-wal-")
		if err != nil {
			panic(err)
		}
		walDir = d
	})
	c := cfg.TestConsensusConfig()
	c.TimeoutCommit = time.Hour // nothing is to happen between Start and Stop
	c.SkipTimeoutCommit = false
	c.SetWalFile(filepath.Join(walDir, fmt.Sprintf("wal-%d", atomic.AddInt64(&walSeq, 1)), "wal"))
	return c
}

// Reactor is registered in the switch under the name "CONSENSUS". The blockchain reactors look it up and call
// SwitchToConsensus on it when they consider themselves caught up; it forwards to a real consensus.Reactor
// under recover (in production the panic would kill the process from inside the blockchain reactor's routine).
type Reactor struct {
	p2p.BaseReactor
	chain *c13kit.Chain
	node  *c13kit.Node

	mtx  sync.Mutex
	res  Result
	Done chan struct{} // closed after the first SwitchToConsensus call has been processed
}

func NewReactor(chain *c13kit.Chain, node *c13kit.Node) *Reactor {
	r := &Reactor{chain: chain, node: node, Done: make(chan struct{})}
	r.BaseReactor = *p2p.NewBaseReactor("C13Consensus", r)
	return r
}

func (r *Reactor) Result() Result { r.mtx.Lock(); defer r.mtx.Unlock(); return r.res }

func safely(f func()) (p string) {
	defer func() {
		if x := recover(); x != nil {
			p = fmt.Sprint(x)
			if p == "" {
				p = "panic"
			}
		}
	}()
	f()
	return ""
}

// SwitchToConsensus has the signature of the consensusReactor interface of blockchain/v0, v1 and v2.
func (r *Reactor) SwitchToConsensus(state sm.State, skipWAL bool) {
	r.mtx.Lock()
	defer r.mtx.Unlock()
	if r.res.Called {
		return
	}
	r.res.Called = true
	r.res.Height = state.LastBlockHeight
	defer close(r.Done)

	bus := types.NewEventBus()
	bus.SetLogger(log.NewNopLogger())
	_ = bus.Start()
	defer bus.Stop() //nolint:errcheck

	var conS *consensus.State
	// the consensus state as the node created it at boot, before any block was synced
	if p := safely(func() {
		conS = consensus.NewState(conf(), r.node.Genesis.Copy(), r.node.BlockExec, r.node.BlockStore, mpmock.Mempool{}, sm.EmptyEvidencePool{})
	}); p != "" {
		r.res.SwitchPanic = "NewState(genesis): " + p
		return
	}
	conS.SetLogger(log.NewNopLogger())
	conS.SetEventBus(bus)
	conR := consensus.NewReactor(conS, true)
	conR.SetLogger(log.NewNopLogger())
	r.res.SwitchPanic = safely(func() { conR.SwitchToConsensus(state, skipWAL) })
	if r.res.SwitchPanic == "" {
		r.res.ConsensusRuns = conS.IsRunning()
		rs := conS.GetRoundState()
		if state.LastBlockHeight > 0 {
			r.inspect(rs.LastCommit, state.LastBlockHeight)
		}
	}
	if conS.IsRunning() {
		_ = conS.Stop()
		conS.Wait()
	}

	// restart on the same stores: the node loads its state and builds the consensus state from it
	r.res.RestartPanic = safely(func() {
		st, err := r.node.StateStore.Load()
		if err != nil {
			panic(err)
		}
		cs2 := consensus.NewState(conf(), st, r.node.BlockExec, r.node.BlockStore, mpmock.Mempool{}, sm.EmptyEvidencePool{})
		_ = cs2
	})
}

func (r *Reactor) inspect(vs *types.VoteSet, h int64) {
	if vs == nil {
		r.res.NoTwoThirds = true
		return
	}
	vals := r.chain.ValsAt(h)
	if !vs.HasTwoThirdsMajority() {
		r.res.NoTwoThirds = true
	}
	for i := 0; i < vals.Size(); i++ {
		v := vs.GetByIndex(int32(i))
		if v == nil {
			continue
		}
		r.res.LastCommitN++
		if err := v.Verify(c13kit.ChainID, vals.Validators[i].PubKey); err != nil {
			r.res.InvalidVotes++
		}
	}
}

// Verdict turns a hand-over result into ("", "") or a violation (key, what). prefix names the reactor.
func (res Result) Verdict(prefix string, tipLies string) (key, what string) {
	switch {
	case res.SwitchPanic != "":
		return prefix + ":handover-panics:" + classify(res.SwitchPanic),
			fmt.Sprintf("block sync finished at height %d; SwitchToConsensus panicked: %.300s (tip commit came from a peer telling: %s)", res.Height, res.SwitchPanic, tipLies)
	case res.RestartPanic != "":
		return prefix + ":restart-panics:" + classify(res.RestartPanic),
			fmt.Sprintf("consensus.NewState on the synced stores panicked: %.300s", res.RestartPanic)
	case res.NoTwoThirds:
		return prefix + ":handover-last-commit-without-two-thirds", "rebuilt LastCommit has no +2/3 majority"
	case res.InvalidVotes > 0:
		return prefix + ":handover-last-commit-holds-invalid-signature", fmt.Sprintf("%d of %d votes in the rebuilt LastCommit do not verify", res.InvalidVotes, res.LastCommitN)
	}
	return "", ""
}

// classify maps the panic text to the cause class, so that different causes get different keys.
func classify(p string) string {
	has := func(s string) bool {
		for i := 0; i+len(s) <= len(p); i++ {
			if p[i:i+len(s)] == s {
				return true
			}
		}
		return false
	}
	switch {
	case has("does not match address"), has("invalid validator address"):
		return "seen-commit-slot-with-wrong-validator-address"
	case has("invalid signature"), has("failed to verify vote"):
		return "seen-commit-slot-with-invalid-signature"
	case has("seen commit for height") && has("not found"):
		return "seen-commit-missing"
	case has("does not have +2/3"):
		return "seen-commit-without-two-thirds"
	case has("Failed to reconstruct LastCommit"):
		return "seen-commit-rejected-by-vote-set"
	}
	return "other"
}
