package v0

// C13 / part v0 — the real blockchain/v0 BlockchainReactor (real BlockPool, real poolRoutine, real requesters,
// real BlockExecutor and stores) is started against a real p2p.Switch whose peers are harness objects. Every
// peer serves exactly one height (range [h,h]), so each request of the pool has exactly one candidate and the
// adversary's strategy — which successive peer of which height tells which lie — is the enumerated dimension.
// A peer that leaves the pool is replaced by a fresh peer for that height which tells the next lie of the
// strategy (honest once the list is used up). Messages enter through bcR.Receive as wire bytes.
// When the node has executed the tip, the hand-over to consensus is performed through the reactor registered
// as "CONSENSUS" (internal/verif/c13hand): either by the reactor's own switchToConsensus ticker or, to save the
// second of waiting, by the harness with the state the node saved.

import (
	"fmt"
	"os"
	"strings"
	"sync"
	"sync/atomic"
	"testing"
	"time"

	"github.com/tendermint/tendermint/internal/verif/c13hand"
	"github.com/tendermint/tendermint/internal/verif/c13kit"
	"github.com/tendermint/tendermint/internal/verif/vr"
	"github.com/tendermint/tendermint/libs/log"
	"github.com/tendermint/tendermint/p2p"
	bcproto "github.com/tendermint/tendermint/proto/tendermint/blockchain"
)

type c13Case struct {
	Strategy c13kit.Strategy `json:"strategy"`
	Natural  bool            `json:"natural"` // wait for the reactor's own switch-to-consensus ticker
	Reverse  bool            `json:"reverse"` // hold the first answers until every height was asked, then deliver highest first
	// Inflate > 0: the first peer of the top height (the carrier of the tip's commit) claims to have Inflate more heights than
	// it has (a false status), answers the request for its real height according to the strategy and is silent about the rest
	Inflate int64 `json:"inflate,omitempty"`
	// LeaveAt > 0 (all peers honest): the peer that served the block of this height disconnects while the reactor is validating
	// that block, i.e. after the reactor has looked at the pair of blocks and before it pops the request
	LeaveAt int64 `json:"leave_at,omitempty"`
	// InflateLate: the false status is sent only after that peer has answered what it was asked (it has been idle once)
	InflateLate bool `json:"inflate_late,omitempty"`
	// Push > 0: before any peer that has height Push is known (only the top peer has reported its status, so the pool already has a
	// requester for Push with nobody to ask), a connected peer that never reported a status sends an unsolicited answer for that
	// height: PushLie from the menu (the fork block, or the canonical block)
	Push    int64      `json:"push,omitempty"`
	PushLie c13kit.Lie `json:"push_lie,omitempty"`
}

type c13Peer = c13hand.Peer

type c13Event struct {
	peer   *c13Peer
	height int64 // block request
}

// ---- network of one case ----

type c13Net struct {
	chain       *c13kit.Chain
	node        *c13kit.Node
	bcR         *BlockchainReactor
	sw          *p2p.Switch
	hand        *c13hand.Reactor
	events      chan c13Event
	peers       []*c13Peer
	cur         map[int64]*c13Peer // current peer per height
	nextK       map[int64]int
	strat       c13kit.Strategy
	inflate     int64
	inflateLate bool
	seq         int
	trace       func(string, ...interface{})
}

var c13Trace = os.Getenv("C13_TRACE") != ""

type c13Writer struct {
	f func(string, ...interface{})
}

func (w c13Writer) Write(b []byte) (int, error) {
	w.f("%s", strings.TrimSpace(string(b)))
	return len(b), nil
}

func c13NewNet(chain *c13kit.Chain, st c13kit.Strategy) *c13Net {
	return c13NewNetOn(chain, st, chain.NewNode())
}

// c13NewNetOn: the reactor starts from node.Genesis, the state the node loaded at boot.
func c13NewNetOn(chain *c13kit.Chain, st c13kit.Strategy, node *c13kit.Node) *c13Net {
	n := &c13Net{chain: chain, node: node, events: make(chan c13Event, 4096), cur: map[int64]*c13Peer{},
		nextK: map[int64]int{}, strat: st}
	n.bcR = NewBlockchainReactor(n.node.Genesis.Copy(), n.node.BlockExec, n.node.BlockStore, true)
	n.bcR.SetLogger(log.NewNopLogger())
	n.sw = c13hand.NewSwitch()
	n.hand = c13hand.NewReactor(chain, n.node)
	n.sw.AddReactor("BLOCKCHAIN", n.bcR)
	n.sw.AddReactor("CONSENSUS", n.hand)
	return n
}

func (n *c13Net) deliver(p *c13Peer, m *bcproto.Message) {
	if !p.IsRunning() {
		return // a stopped peer's connection is gone
	}
	n.bcR.Receive(BlockchainChannel, p, c13hand.Wire(m))
}

func (n *c13Net) addPeer(h int64) *c13Peer {
	k := n.nextK[h]
	n.nextK[h] = k + 1
	p := c13hand.NewPeer(h, k, func(p *c13Peer, height int64) bool {
		select {
		case n.events <- c13Event{peer: p, height: height}:
			return true
		default:
			return false
		}
	}, func(p *c13Peer) {
		if n.trace != nil {
			n.trace("stopped peer(h=%d,k=%d)", p.H, p.K)
		}
	})
	n.peers = append(n.peers, p)
	n.cur[h] = p
	if n.trace != nil {
		n.trace("add peer(h=%d,k=%d) -> %s", h, k, n.strat.Next(h, k))
	}
	p2p.AddPeerToSwitchPeerSet(n.sw, p)
	n.bcR.AddPeer(p)
	top := h
	if n.inflate > 0 && !n.inflateLate && h == c13kit.Tip+1 && k == 0 {
		top = h + n.inflate
	}
	n.deliver(p, c13kit.StatusMsg(h, top))
	return p
}

func (n *c13Net) inPool(p *c13Peer) bool {
	n.bcR.pool.mtx.Lock()
	defer n.bcR.pool.mtx.Unlock()
	_, ok := n.bcR.pool.peers[p.PID]
	return ok
}

func (n *c13Net) answer(p *c13Peer) {
	if p.Resp.Msg != nil {
		n.deliver(p, p.Resp.Msg)
	}
}

func (n *c13Net) close() {
	if n.bcR.IsRunning() {
		_ = n.bcR.Stop()
	}
	for _, p := range n.peers {
		if p.IsRunning() {
			_ = p.Stop()
		}
	}
	n.node.Close()
}

func c13NeedsTimeout(s c13kit.Strategy) bool {
	for _, ls := range s.Lies {
		for _, l := range ls {
			switch l {
			case c13kit.NoBlock, c13kit.Silence, c13kit.HeightPlus, c13kit.HeightMinus, c13kit.PaddedKeepHash:
				return true
			}
		}
	}
	return false
}

type c13Result struct {
	Trace     []string
	Key, What string
	Outcome   string
	Inconcl   string
	Diags     []string
	Notes     []string
}

const c13CaseTimeout = 90 * time.Second

// c13Run executes one case on a fresh node.
func c13Run(chain *c13kit.Chain, c c13Case) (res c13Result) {
	if c13NeedsTimeout(c.Strategy) || c.Inflate > 0 {
		peerTimeout = 200 * time.Millisecond // package variable "so we can override with tests"; only unanswered requests wait for it
	} else {
		peerTimeout = 15 * time.Second
	}
	n := c13NewNet(chain, c.Strategy)
	n.inflate, n.inflateLate = c.Inflate, c.InflateLate
	defer n.close()
	diag := func(s string) { res.Diags = append(res.Diags, s) }
	t0 := time.Now()
	var tmtx sync.Mutex
	trace := func(f string, a ...interface{}) {
		if c13Trace {
			tmtx.Lock()
			res.Trace = append(res.Trace, fmt.Sprintf("%6dus ", time.Since(t0).Microseconds())+fmt.Sprintf(f, a...))
			tmtx.Unlock()
		}
	}
	n.trace = trace
	if c13Trace {
		lg := log.NewTMLogger(c13Writer{trace})
		n.bcR.SetLogger(lg)
		n.sw.SetLogger(lg)
	}
	var left int32
	if c.LeaveAt > 0 {
		n.node.Ev.Hook = func() {
			pool := n.bcR.pool
			ph, _, _ := pool.GetStatus()
			if ph != c.LeaveAt || !atomic.CompareAndSwapInt32(&left, 0, 1) {
				return
			}
			pool.mtx.Lock()
			rq := pool.requesters[ph]
			pool.mtx.Unlock()
			if rq == nil {
				return
			}
			pid := rq.getPeerID()
			peer := n.sw.Peers().Get(pid)
			if peer == nil {
				return
			}
			trace("peer %s leaves while its block of height %d is being validated", pid, ph)
			n.sw.StopPeerForError(peer, "verif: connection lost")
			// the requester notices (its block is taken back, it looks for another peer)
			until := time.Now().Add(2 * time.Second)
			for rq.getBlock() != nil && time.Now().Before(until) {
				time.Sleep(100 * time.Microsecond)
			}
			atomic.StoreInt32(&left, 2)
		}
	}
	if err := n.bcR.Start(); err != nil {
		panic(err)
	}
	var pusher *c13Peer
	pushed := &c13kit.Response{}
	if c.Push > 0 {
		n.addPeer(c13kit.Tip + 1)
		pusher = c13hand.NewPeer(0, 900, func(*c13Peer, int64) bool { return true }, nil)
		p2p.AddPeerToSwitchPeerSet(n.sw, pusher)
		n.bcR.AddPeer(pusher)
		waitUntil := time.Now().Add(10 * time.Second)
		for {
			n.bcR.pool.mtx.Lock()
			rq := n.bcR.pool.requesters[c.Push]
			n.bcR.pool.mtx.Unlock()
			if rq != nil && rq.getPeerID() == "" {
				break
			}
			if time.Now().After(waitUntil) {
				res.Inconcl = "the pool never had a requester without a peer for the pushed height"
				res.Outcome = "inconclusive"
				_ = pusher.Stop()
				return
			}
			time.Sleep(200 * time.Microsecond)
		}
		pushed = chain.Respond(c.PushLie, c.Push)
		if pushed.Msg != nil {
			trace("unsolicited %s for height %d from a peer without status", c.PushLie, c.Push)
			n.deliver(pusher, pushed.Msg)
		}
		for h := int64(1); h <= c13kit.Tip; h++ {
			n.addPeer(h)
		}
		defer func() {
			if pusher.IsRunning() {
				_ = pusher.Stop()
			}
		}()
	} else {
		for h := int64(1); h <= c13kit.Tip+1; h++ {
			n.addPeer(h)
		}
	}
	deadline := time.Now().Add(c13CaseTimeout)
	tick := time.NewTicker(time.Millisecond)
	defer tick.Stop()
	held := []*c13Peer{}
	holding := c.Reverse
	synced, livelock := false, false
LOOP:
	for {
		select {
		case ev := <-n.events:
			p := ev.peer
			trace("request h=%d to peer(h=%d,k=%d) asked=%v running=%v", ev.height, p.H, p.K, p.Asked, p.IsRunning())
			if ev.height != p.H && c.Inflate > 0 && p.H == c13kit.Tip+1 && p.K == 0 && ev.height > p.H && ev.height <= p.H+c.Inflate {
				continue // a height the peer only claimed to have: silence
			}
			if ev.height != p.H {
				diag("unexpected_request")
				res.Notes = append(res.Notes, fmt.Sprintf("request for height %d reached peer(h=%d,k=%d) in %s", ev.height, p.H, p.K, c.Strategy))
				continue
			}
			if p.Asked {
				// the requester's 30s retry timer re-requests even a block it already holds: a peer answers again
				diag("repeated_request_answered_again")
				n.answer(p)
				continue
			}
			p.Asked = true
			p.Resp = chain.Respond(c.Strategy.Next(p.H, p.K), p.H)
			if holding {
				held = append(held, p)
				if len(held) == c13kit.Tip+1 {
					for i := len(held) - 1; i >= 0; i-- {
						// highest height first
						var hp *c13Peer
						for _, q := range held {
							if q.H == int64(i+1) {
								hp = q
							}
						}
						n.answer(hp)
					}
					holding, held = false, nil
				}
				continue
			}
			n.answer(p)
			if c.Inflate > 0 && c.InflateLate && p.H == c13kit.Tip+1 && p.K == 0 {
				// it has answered everything it was asked; now it claims more
				n.deliver(p, c13kit.StatusMsg(p.H, p.H+c.Inflate))
			}
		case <-n.hand.Done:
			break LOOP // the reactor switched to consensus by itself
		case <-tick.C:
			if time.Now().After(deadline) {
				res.Inconcl = "case did not finish within the per-case timeout"
				break LOOP
			}
			poolH, _, _ := n.bcR.pool.GetStatus()
			for h := poolH; h <= c13kit.Tip+1; h++ {
				if p := n.cur[h]; p != nil && !n.inPool(p) {
					n.addPeer(h) // dropped from the pool: a fresh peer offers this height
				}
			}
			if len(n.peers) > 80 {
				// <= 3 lies cannot cost that many peers: requests are being retried without the cause going away
				livelock = true
				break LOOP
			}
			if !synced {
				if st, err := n.node.StateStore.Load(); err == nil && st.LastBlockHeight >= c13kit.Tip {
					synced = true
					if !c.Natural {
						break LOOP
					}
				}
			}
		}
	}
	reached := false
	if st, err := n.node.StateStore.Load(); err == nil && st.LastBlockHeight >= c13kit.Tip {
		reached = true
	}
	// peers whose answer could not be used must be stopped by now (their request could only be satisfied elsewhere
	// after they left the pool); the switch is told asynchronously in some paths, so allow it to catch up.
	if reached {
		grace := time.Now().Add(5 * time.Second)
		for {
			pending := false
			for _, p := range n.peers {
				if p.Asked && !p.Resp.Usable && p.IsRunning() {
					pending = true
				}
			}
			if !pending || time.Now().After(grace) || !n.bcR.pool.IsRunning() {
				break
			}
			time.Sleep(time.Millisecond)
		}
	}
	if pusher != nil && reached && !pushed.Usable {
		grace := time.Now().Add(5 * time.Second)
		for pusher.IsRunning() && time.Now().Before(grace) && n.bcR.pool.IsRunning() {
			time.Sleep(time.Millisecond)
		}
	}
	// a peer that claimed heights it never serves must be dropped (its claim keeps the node from seeing itself caught up)
	var liar *c13Peer
	if c.Inflate > 0 {
		for _, p := range n.peers {
			if p.H == c13kit.Tip+1 && p.K == 0 {
				liar = p
			}
		}
		if liar != nil && reached {
			grace := time.Now().Add(10 * time.Second)
			for liar.IsRunning() && time.Now().Before(grace) && n.bcR.pool.IsRunning() {
				time.Sleep(time.Millisecond)
			}
		}
	}
	liarKept := liar != nil && reached && liar.IsRunning() && n.bcR.pool.IsRunning()
	pusherKept := pusher != nil && pusher.IsRunning()
	handedOver := n.hand.Result().Called
	if n.bcR.IsRunning() {
		_ = n.bcR.Stop()
	}
	if !handedOver && reached {
		st, err := n.node.StateStore.Load()
		if err != nil {
			panic(err)
		}
		n.hand.SwitchToConsensus(st, true)
	}
	hr := n.hand.Result()

	// ---- oracle ----
	if key, what := chain.CheckStores(n.node, "blockchain/v0", diag); key != "" {
		res.Key, res.What, res.Outcome = key, what, "violation"
		return
	}
	if hr.Called {
		tipLies := []string{}
		for _, p := range n.peers {
			if p.H == hr.Height+1 && p.Asked {
				tipLies = append(tipLies, p.Resp.Lie.String())
			}
		}
		if key, what := hr.Verdict("blockchain/v0", strings.Join(tipLies, ">")); key != "" {
			res.Key, res.What, res.Outcome = key, what, "violation"
			return
		}
	}
	// (an early switch to consensus — the reactor's one-second ticker firing on a loaded machine before all peers are known — is the
	// outcome "early-switch" below, not a wedge)
	if !reached && !hr.Called && c.LeaveAt > 0 && atomic.LoadInt32(&left) == 2 {
		ph, _, _ := n.bcR.pool.GetStatus()
		res.Key = "blockchain/v0:sync-from-honest-peers-wedged-after-a-peer-left-during-validation"
		res.What = fmt.Sprintf("all peers honest; the peer that served height %d disconnected while that block was being validated; the node did not reach the tip within %v (store height %d, pool height %d, %d peers consumed)",
			c.LeaveAt, c13CaseTimeout, n.node.BlockStore.Height(), ph, len(n.peers))
		res.Outcome = "violation"
		return
	}
	if livelock {
		for _, p := range n.peers {
			if p.Asked && !p.Resp.Usable && p.IsRunning() {
				res.Key = "blockchain/v0:peer-not-stopped-after:" + p.Resp.Lie.String()
				res.What = fmt.Sprintf("peer for height %d answered with %q (unusable) and is still connected and in use while %d replacement peers were consumed around it", p.H, p.Resp.Lie, len(n.peers))
				res.Outcome = "violation"
				return
			}
		}
		res.Inconcl = "more than 80 peers consumed without reaching the tip"
		res.Outcome = "inconclusive"
		return
	}
	if !reached {
		if hr.Called {
			// the pool momentarily had no peer above its height and the reactor switched early; safety and hand-over
			// were checked on what it had stored, the liveness clause is not judged.
			res.Outcome = fmt.Sprintf("early-switch@%d/handover-ok", hr.Height)
			return
		}
		if res.Inconcl == "" {
			res.Inconcl = "tip not reached"
		}
		res.Outcome = "inconclusive"
		return
	}
	for _, p := range n.peers {
		if p.Asked && !p.Resp.Usable && p.IsRunning() {
			res.Key = "blockchain/v0:peer-not-stopped-after:" + p.Resp.Lie.String()
			res.What = fmt.Sprintf("peer for height %d answered with %q (unusable), the node synced to the tip from other peers, and the lying peer is still connected", p.H, p.Resp.Lie)
			res.Outcome = "violation"
			return
		}
	}
	if liarKept {
		res.Key = "blockchain/v0:silent-peer-with-false-status-not-dropped"
		res.What = fmt.Sprintf("the peer of height %d claimed %d more heights (late=%v), never answered a request for them, and is still connected 10 s after the node stored the tip (peer timeout in this case: %v)", liar.H, c.Inflate, c.InflateLate, peerTimeout)
		res.Outcome = "violation"
		return
	}
	if pusherKept && !pushed.Usable && pushed.Msg != nil {
		res.Key = "blockchain/v0:unsolicited-answer-taken:sender-not-stopped-after:" + c.PushLie.String()
		res.What = fmt.Sprintf("a peer that was never asked sent %q for height %d while that height had no peer assigned; the node synced to the tip and the sender is still connected", c.PushLie, c.Push)
		res.Outcome = "violation"
		return
	}
	stopped, kept := 0, 0
	for _, p := range n.peers {
		if !p.Asked {
			continue
		}
		if p.IsRunning() {
			kept++
			if p.Resp.Usable && !p.Resp.Clean {
				diag("peer_with_padded_commit_kept")
			}
		} else {
			stopped++
			if p.Resp.Usable && p.Resp.Clean {
				diag("honest_peer_stopped_as_collateral")
			}
		}
	}
	how := "harness"
	if handedOver {
		how = "own-ticker"
	}
	res.Outcome = fmt.Sprintf("synced/handover-ok(%s)/peers-stopped=%d", how, stopped)
	return
}

func TestVerifC13V0(t *testing.T) {
	// C17 reuses the unsolicited-answer cases of this harness as its part "unsolicited" (VERIF_C13_AS_C17=1): hostile input may cost
	// the sender its connection and nobody else's
	asC17 := os.Getenv("VERIF_C13_AS_C17") != ""
	pid, part := "C13", "v0"
	if asC17 {
		pid, part = "C17", "unsolicited"
	}
	r := vr.Start(pid, part, 100*time.Second, 18*time.Minute)
	defer r.Finish()
	defer c13hand.Cleanup()
	r.Rule = "every adversary strategy with <= L lies over heights 1..5 of a 6-block canonical chain with a validator addition: (height, successive peer) -> lie from the menu; " +
		"unsolicited answers (fork block, canonical block, forged commit) from a peer without status for each height that has no peer yet; the <= 1-lie strategies also with a false status (the top peer claims two heights it does not have and is silent about them); strategies are distinct by construction; non-trivial = at least one lie; each runs the real v0 reactor to the tip and through the hand-over"
	r.Assume("ed25519 is a black box; the adversary holds one validator key (< 1/3) and cannot forge the others")
	r.Assume("schedules inside the pool's goroutines are whatever the Go scheduler produces; the enumerated dimension is the adversary's strategy (plus two delivery orders)")
	r.Assume("peerTimeout (a package variable) is lowered to 200ms in cases that contain unanswered requests")
	chain := c13kit.NewChain()
	var rc c13Case
	if rep, skip := r.ReplayCase(&rc); skip {
		return
	} else if rep {
		rep := 1
		fmt.Sscan(os.Getenv("C13_REPEAT"), &rep)
		for i := 0; i < rep; i++ {
			r.Eval()
			res := c13Run(chain, rc)
			if res.Key != "" {
				r.Violation(res.Key, res.What, rc)
			}
			r.Outcome(res.Outcome)
			if c13Trace {
				fmt.Printf("--- run %d: outcome=%s key=%s diags=%v\n%s\n", i, res.Outcome, res.Key, res.Diags, strings.Join(res.Trace, "\n"))
			}
		}
		return
	}
	// full menu up to one level below the deepest, core menu at the deepest level
	maxLies := vr.Pick(2, 3)
	menuFor := func(total int) []c13kit.Lie {
		if total >= maxLies {
			return c13kit.CoreMenu()
		}
		return c13kit.FullMenu()
	}
	k := 0
	levelDone := -1
	stop := false
	confirmed, unconfirmed := map[string]bool{}, map[string]string{}
	run := func(c c13Case) {
		r.Eval()
		if c.Strategy.NumLies() > 0 || c.Push > 0 || c.Inflate > 0 {
			r.NTCount(1)
		}
		tc := time.Now()
		res := c13Run(chain, c)
		if d := time.Since(tc); d > 3*time.Second {
			r.Note(fmt.Sprintf("slow case %.1fs natural=%v reverse=%v %s -> %s", d.Seconds(), c.Natural, c.Reverse, c.Strategy, res.Outcome))
			r.Add("slow_cases", 1)
		}
		for _, d := range res.Diags {
			r.Add("diag_"+d, 1)
			if asC17 && res.Key == "" && c.Push > 0 && c.Strategy.NumLies() == 0 && d == "honest_peer_stopped_as_collateral" {
				res.Key = "blockchain/v0:honest-peer-dropped-because-of-another-peers-unsolicited-block"
				res.What = fmt.Sprintf("every asked peer answered with the canonical block; a peer nobody asked sent %q for height %d; an honest peer lost its connection", c.PushLie, c.Push)
			}
		}
		if res.Inconcl != "" {
			r.Cap("v0: " + res.Inconcl)
		}
		for _, nt := range res.Notes {
			r.Note(nt)
		}
		if res.Key != "" {
			if confirmed[res.Key] {
				r.Violation(res.Key, res.What, c)
			} else {
				// first sight of this key in this shard: it must reproduce. The reactor's goroutines are free-running, so
				// a strategy with several lies at one height can resolve differently from run to run (a peer may be dropped
				// as collateral before its answer is looked at): accept the alarm if 3 of up to 6 re-runs show the same key
				// and none shows another one.
				same, other := 0, 0
				for i := 0; i < 6 && same < 3; i++ {
					r2 := c13Run(chain, c)
					if r2.Key == res.Key {
						same++
					} else if r2.Key != "" {
						other++
					}
				}
				if same >= 3 && other == 0 {
					confirmed[res.Key] = true
					r.Violation(res.Key, res.What, c)
				} else {
					unconfirmed[res.Key] = c.Strategy.String()
					r.Add("alarm_not_reproduced_on_this_case", 1)
					res.Outcome = "schedule-dependent-alarm"
				}
			}
		}
		r.Outcome(res.Outcome)
		if k%97 == 1 || (res.Key != "" && k%7 == 0) {
			r.Sample(map[string]interface{}{"strategy": c.Strategy.String(), "natural": c.Natural, "reverse": c.Reverse, "outcome": res.Outcome})
		}
	}
	// the few special schedules first (they must not fall victim to the time budget), the strategy enumeration after them
	// false status: the same <= 1-lie strategies with the first peer of the top height claiming two more heights than it has
	if !asC17 {
		c13kit.Enumerate(func(int) []c13kit.Lie { return c13kit.FullMenu() }, 1, func(s c13kit.Strategy) bool {
			for _, v := range []c13Case{{Strategy: s, Inflate: 2}, {Strategy: s, Natural: true, Inflate: 2}, {Strategy: s, Inflate: 2, InflateLate: true}} {
				k++
				if !r.Mine(k) {
					continue
				}
				if r.Deadline("v0 strategies with a false status") {
					stop = true
					return false
				}
				run(v)
			}
			return true
		})
	}
	// a peer leaves inside the window between the reactor's look at a block and the pop of its request
	if !asC17 {
		for h := int64(1); h <= c13kit.Tip; h++ {
			for _, nat := range []bool{false, true} {
				k++
				if r.Mine(k) {
					run(c13Case{LeaveAt: h, Natural: nat})
				}
			}
		}
	}
	// unsolicited answers for a height nobody can be asked for yet (<= 1 further lie)
	if !stop {
		c13kit.Enumerate(func(int) []c13kit.Lie { return c13kit.CoreMenu() }, vr.Pick(0, 1), func(s c13kit.Strategy) bool {
			for push := int64(1); push <= c13kit.Tip; push++ {
				for _, pl := range []c13kit.Lie{c13kit.ForkBlock, c13kit.Honest, c13kit.ForgeLast} {
					if !c13kit.Applicable(pl, push) {
						continue
					}
					k++
					if !r.Mine(k) {
						continue
					}
					if r.Deadline("v0 strategies with an unsolicited answer") {
						stop = true
						return false
					}
					run(c13Case{Strategy: s, Push: push, PushLie: pl})
				}
			}
			return true
		})
	}
	c13kit.Enumerate(menuFor, maxLies, func(s c13kit.Strategy) bool {
		if stop || asC17 {
			return false
		}
		variants := []c13Case{{Strategy: s}}
		if s.NumLies() <= 1 {
			variants = append(variants, c13Case{Strategy: s, Natural: true})
		}
		if s.NumLies() <= vr.Pick(1, 2) {
			variants = append(variants, c13Case{Strategy: s, Reverse: true})
		}
		for _, c := range variants {
			k++
			if !r.Mine(k) {
				continue
			}
			if r.Deadline(fmt.Sprintf("v0 strategies with %d lies", s.NumLies())) {
				stop = true
				return false
			}
			run(c)
		}
		if s.NumLies()-1 > levelDone {
			levelDone = s.NumLies() - 1
		}
		return true
	})
	if !stop {
		levelDone = maxLies
	}
	r.Bound = fmt.Sprintf("all strategies with <= %d lies (full menu of %d lie kinds below the deepest level, core menu of %d at the deepest; heights 1..%d); asked for <= %d", levelDone, len(c13kit.FullMenu()), len(c13kit.CoreMenu()), c13kit.Tip+1, maxLies)
	if r.Shard == 0 {
		r.Set("cases_enumerated", k)
	}
	for key, on := range unconfirmed {
		if !confirmed[key] {
			r.Cap("v0: an alarm was seen once and did not reproduce: " + key)
			r.Note("seen once, not reproduced: " + key + " on " + on)
		}
	}
}
