package v0

// C17 part "blockchain" — hostile-but-decodable messages against the real blockchain v0 reactor.
//
// Two node modes: "consensus" (the reactor is running but the node is not fast-syncing: pool idle)
// and "fastsync" (real BlockPool started; the real poolRoutine is run by the harness in a goroutine
// that has a recover — in production it is a bare goroutine, so a panic in it kills the process).
// Peer states: unknown to the pool / after StatusResponse(0,3) (the pool has asked this peer for
// blocks 1..3; the harness waits until the three BlockRequests have reached the peer).
// Messages: every message type with its numeric fields over the boundary menu, and for
// BlockResponse all ordered pairs over a menu of blocks of a 3-block chain signed by the real
// validator with hostile edits.
//
// Reactor.Receive runs under the connection's recover (panic = peer error, allowed). Oracle:
// poolRoutine does not panic; no pool lock is left held; the pool keeps at most one entry for the
// peer and never more than maxTotalRequesters requesters (bounded memory); when two consecutive
// blocks are in the pool, the pool either advances or drops the peer (condition wait; a timeout is
// inconclusive).

import (
	"fmt"
	"math"
	"net"
	"os"
	"runtime/debug"
	"strings"
	"sync"
	"sync/atomic"
	"testing"
	"time"

	"github.com/gogo/protobuf/proto"
	dbm "github.com/tendermint/tm-db"

	cfg "github.com/tendermint/tendermint/config"
	"github.com/tendermint/tendermint/crypto/ed25519"
	"github.com/tendermint/tendermint/internal/verif/vr"
	"github.com/tendermint/tendermint/libs/log"
	"github.com/tendermint/tendermint/libs/service"
	"github.com/tendermint/tendermint/mempool/mock"
	"github.com/tendermint/tendermint/p2p"
	tmconn "github.com/tendermint/tendermint/p2p/conn"
	bcproto "github.com/tendermint/tendermint/proto/tendermint/blockchain"
	tmproto "github.com/tendermint/tendermint/proto/tendermint/types"
	"github.com/tendermint/tendermint/proxy"
	sm "github.com/tendermint/tendermint/state"
	"github.com/tendermint/tendermint/store"
	"github.com/tendermint/tendermint/types"
)

type c17Peer struct {
	id      p2p.ID
	mtx     sync.Mutex
	kv      map[string]interface{}
	stopped int32
	reqs    map[int64]int // BlockRequests received, by height
	ev      chan struct{}
}

var _ p2p.Peer = (*c17Peer)(nil)
var _ service.Service = (*c17Peer)(nil)

func newC17Peer(id string) *c17Peer {
	return &c17Peer{id: p2p.ID(id), kv: map[string]interface{}{}, reqs: map[int64]int{}, ev: make(chan struct{}, 1)}
}
func (p *c17Peer) Start() error                    { return nil }
func (p *c17Peer) OnStart() error                  { return nil }
func (p *c17Peer) Stop() error                     { atomic.AddInt32(&p.stopped, 1); return nil }
func (p *c17Peer) OnStop()                         {}
func (p *c17Peer) Reset() error                    { return nil }
func (p *c17Peer) OnReset() error                  { return nil }
func (p *c17Peer) Quit() <-chan struct{}           { return make(chan struct{}) }
func (p *c17Peer) String() string                  { return "c17Peer{" + string(p.id) + "}" }
func (p *c17Peer) SetLogger(log.Logger)            {}
func (p *c17Peer) IsRunning() bool                 { return atomic.LoadInt32(&p.stopped) == 0 }
func (p *c17Peer) FlushStop()                      {}
func (p *c17Peer) ID() p2p.ID                      { return p.id }
func (p *c17Peer) RemoteIP() net.IP                { return net.IPv4(10, 0, 0, 17) }
func (p *c17Peer) RemoteAddr() net.Addr            { return &net.TCPAddr{IP: p.RemoteIP(), Port: 26656} }
func (p *c17Peer) IsOutbound() bool                { return false }
func (p *c17Peer) IsPersistent() bool              { return false }
func (p *c17Peer) CloseConn() error                { return nil }
func (p *c17Peer) NodeInfo() p2p.NodeInfo          { return p2p.DefaultNodeInfo{} }
func (p *c17Peer) Status() tmconn.ConnectionStatus { return tmconn.ConnectionStatus{} }
func (p *c17Peer) SocketAddr() *p2p.NetAddress     { return p2p.NewNetAddressIPPort(p.RemoteIP(), 26656) }
func (p *c17Peer) Send(ch byte, b []byte) bool     { return p.TrySend(ch, b) }
func (p *c17Peer) TrySend(ch byte, b []byte) bool {
	m := &bcproto.Message{}
	if err := proto.Unmarshal(b, m); err == nil {
		if r := m.GetBlockRequest(); r != nil {
			p.mtx.Lock()
			p.reqs[r.Height]++
			p.mtx.Unlock()
			select {
			case p.ev <- struct{}{}:
			default:
			}
		}
	}
	return true
}
func (p *c17Peer) requested(h int64) bool      { p.mtx.Lock(); defer p.mtx.Unlock(); return p.reqs[h] > 0 }
func (p *c17Peer) Set(k string, v interface{}) { p.mtx.Lock(); p.kv[k] = v; p.mtx.Unlock() }
func (p *c17Peer) Get(k string) interface{}    { p.mtx.Lock(); defer p.mtx.Unlock(); return p.kv[k] }
func (p *c17Peer) SetRemovalFailed()           {}
func (p *c17Peer) GetRemovalFailed() bool      { return false }

// ---- chain owned by the peer ----

type c17BEnv struct {
	config  *cfg.Config
	genDoc  *types.GenesisDoc
	pv      types.PrivValidator
	blocks  []*types.Block // blocks[1..3]
	menu    []c17BBlock
}

type c17BBlock struct {
	name string
	pb   *tmproto.Block
}

func c17NewNode(e *c17BEnv) (sm.State, *sm.BlockExecutor, *store.BlockStore, sm.Store, proxy.AppConns) {
	app := &testApp{}
	cc := proxy.NewLocalClientCreator(app)
	proxyApp := proxy.NewAppConns(cc)
	proxyApp.SetLogger(log.NewNopLogger())
	if err := proxyApp.Start(); err != nil {
		panic(err)
	}
	stateStore := sm.NewStore(dbm.NewMemDB(), sm.StoreOptions{})
	blockStore := store.NewBlockStore(dbm.NewMemDB())
	state, err := stateStore.LoadFromDBOrGenesisDoc(e.genDoc)
	if err != nil {
		panic(err)
	}
	if err := stateStore.Save(state); err != nil {
		panic(err)
	}
	blockExec := sm.NewBlockExecutor(stateStore, log.NewNopLogger(), proxyApp.Consensus(), mock.Mempool{}, sm.EmptyEvidencePool{})
	return state, blockExec, blockStore, stateStore, proxyApp
}

func newC17BEnv() *c17BEnv {
	e := &c17BEnv{config: cfg.ResetTestRoot("c17_blockchain")}
	key := ed25519.GenPrivKeyFromSecret([]byte("c17-bc-validator"))
	e.pv = types.NewMockPVWithParams(key, false, false)
	e.genDoc = &types.GenesisDoc{GenesisTime: time.Date(2022, 5, 1, 0, 0, 0, 0, time.UTC), ChainID: "c17-bc", InitialHeight: 1,
		Validators: []types.GenesisValidator{{PubKey: key.PubKey(), Power: 10}}}
	state, blockExec, blockStore, _, app := c17NewNode(e)
	defer app.Stop() //nolint
	e.blocks = make([]*types.Block, 5)
	for h := int64(1); h <= 4; h++ {
		lastCommit := types.NewCommit(h-1, 0, types.BlockID{}, nil)
		if h > 1 {
			meta := blockStore.LoadBlockMeta(h - 1)
			vote, err := types.MakeVote(h-1, meta.BlockID, state.Validators, e.pv, e.genDoc.ChainID, time.Now())
			if err != nil {
				panic(err)
			}
			lastCommit = types.NewCommit(vote.Height, vote.Round, meta.BlockID, []types.CommitSig{vote.CommitSig()})
		}
		b := makeBlock(h, state, lastCommit)
		parts := b.MakePartSet(types.BlockPartSizeBytes)
		bid := types.BlockID{Hash: b.Hash(), PartSetHeader: parts.Header()}
		var err error
		state, _, err = blockExec.ApplyBlock(state, bid, b)
		if err != nil {
			panic(err)
		}
		blockStore.SaveBlock(b, parts, lastCommit)
		e.blocks[h] = b
	}
	pb := func(h int64) *tmproto.Block {
		p, err := e.blocks[h].ToProto()
		if err != nil {
			panic(err)
		}
		return p
	}
	add := func(name string, p *tmproto.Block) { e.menu = append(e.menu, c17BBlock{name, p}) }
	add("b1", pb(1))
	add("b2", pb(2))
	add("b3", pb(3))
	add("nil-block", nil)
	add("empty-block", &tmproto.Block{})
	{ // b2 whose LastCommit carries two signature slots (validator set has one)
		p := pb(2)
		p.LastCommit.Signatures = append(p.LastCommit.Signatures, p.LastCommit.Signatures[0])
		add("b2-commit-2-sigs", p)
	}
	{ // b2 whose LastCommit has an absent slot only
		p := pb(2)
		p.LastCommit.Signatures = []tmproto.CommitSig{{BlockIdFlag: tmproto.BlockIDFlagAbsent}}
		add("b2-commit-absent", p)
	}
	{ // b2 whose LastCommit has no signature slots at all
		p := pb(2)
		p.LastCommit.Signatures = nil
		add("b2-commit-0-sigs", p)
	}
	{ // b2 whose LastCommit is for another block id
		p := pb(2)
		p.LastCommit.BlockID.Hash = append([]byte{}, p.LastCommit.BlockID.Hash...)
		p.LastCommit.BlockID.Hash[0] ^= 1
		add("b2-commit-other-block", p)
	}
	{ // b2 whose LastCommit claims another height / round
		p := pb(2)
		p.LastCommit.Height = math.MaxInt64
		add("b2-commit-height-max", p)
		p = pb(2)
		p.LastCommit.Round = math.MaxInt32
		add("b2-commit-round-max", p)
	}
	{ // b2 with garbage signature
		p := pb(2)
		p.LastCommit.Signatures[0].Signature = make([]byte, 64)
		add("b2-commit-bad-sig", p)
	}
	{ // b1 with changed tx data (DataHash mismatch -> ValidateBasic)
		p := pb(1)
		p.Data.Txs = append(p.Data.Txs, []byte("extra"))
		add("b1-data-mismatch", p)
	}
	{ // b1 claiming other heights
		for _, h := range []int64{0, -1, 2, 1000, math.MaxInt64} {
			p := pb(1)
			p.Header.Height = h
			add(fmt.Sprintf("b1-height-%d", h), p)
		}
	}
	{ // b1 with another chain id / app hash
		p := pb(1)
		p.Header.ChainID = "other"
		add("b1-other-chain", p)
		p = pb(1)
		p.Header.AppHash = []byte("zzzz")
		add("b1-other-apphash", p)
	}
	return e
}

// ---- cases ----

type c17BCase struct {
	Mode   int    `json:"mode"`   // 0 consensus mode (node has blocks 1..2, pool idle), 1 fast sync from genesis
	Known  bool   `json:"known"`  // peer sent StatusResponse(0,3) before
	Kind   string `json:"kind"`   // StatusResponse BlockRequest NoBlockResponse StatusRequest BlockResponse Empty Garbage
	A      int64  `json:"a"`      // height / base
	B      int64  `json:"b"`      // height (StatusResponse)
	Blocks []int  `json:"blocks"` // menu indices for BlockResponse sequences
	Other  bool   `json:"other"`  // the (last) BlockResponse comes from a second peer the pool did not ask
	Names  string `json:"names,omitempty"`
}

func c17BMsg(kind string, a, b int64, blk *tmproto.Block) []byte {
	var w p2p.Wrapper
	switch kind {
	case "StatusResponse":
		w = &bcproto.StatusResponse{Base: a, Height: b}
	case "BlockRequest":
		w = &bcproto.BlockRequest{Height: a}
	case "NoBlockResponse":
		w = &bcproto.NoBlockResponse{Height: a}
	case "StatusRequest":
		w = &bcproto.StatusRequest{}
	case "BlockResponse":
		w = &bcproto.BlockResponse{Block: blk}
	case "Empty":
		bz, _ := proto.Marshal(&bcproto.Message{})
		return bz
	default:
		return []byte{0x0a, 0xff, 0xff, 0xff, 0x0f, 0x01}
	}
	bz, err := proto.Marshal(w.Wrap())
	if err != nil {
		panic(err)
	}
	return bz
}

func c17BSite(val string, stack []byte) string {
	lines := strings.Split(string(stack), "\n")
	start := 0
	for i, l := range lines {
		if strings.HasPrefix(l, "panic(") {
			start = i
		}
	}
	for _, l := range lines[start:] {
		if strings.HasPrefix(l, "github.com/tendermint/tendermint/") && !strings.Contains(l, "c17") {
			f := strings.TrimPrefix(l, "github.com/tendermint/tendermint/")
			if i := strings.LastIndex(f, "("); i > 0 {
				f = f[:i]
			}
			if len(val) > 50 {
				val = val[:50]
			}
			return val + " @ " + f
		}
	}
	return val
}

func c17BWait(ev chan struct{}, cond func() bool) bool {
	if cond() {
		return true
	}
	t := time.NewTimer(20 * time.Second)
	defer t.Stop()
	tick := time.NewTicker(500 * time.Microsecond)
	defer tick.Stop()
	for {
		select {
		case <-ev:
		case <-tick.C:
		case <-t.C:
			return cond()
		}
		if cond() {
			return true
		}
	}
}

func (e *c17BEnv) run(c c17BCase) (key, what, outcome, inconclusive string) {
	state, blockExec, blockStore, _, app := c17NewNode(e)
	defer app.Stop() //nolint
	if c.Mode == 0 {
		for h := int64(1); h <= 2; h++ {
			b := e.blocks[h]
			parts := b.MakePartSet(types.BlockPartSizeBytes)
			bid := types.BlockID{Hash: b.Hash(), PartSetHeader: parts.Header()}
			var err error
			state, _, err = blockExec.ApplyBlock(state, bid, b)
			if err != nil {
				panic(err)
			}
			blockStore.SaveBlock(b, parts, e.blocks[h+1].LastCommit)
		}
	}
	bcR := NewBlockchainReactor(state.Copy(), blockExec, blockStore, false)
	bcR.SetLogger(log.NewNopLogger())
	tr := p2p.NewMultiplexTransport(p2p.DefaultNodeInfo{}, p2p.NodeKey{}, tmconn.DefaultMConnConfig())
	sw := p2p.NewSwitch(e.config.P2P, tr)
	sw.SetLogger(log.NewNopLogger())
	sw.AddReactor("BLOCKCHAIN", bcR)
	if err := bcR.Start(); err != nil {
		panic(err)
	}
	var routinePanic atomic.Value
	routineDone := make(chan struct{})
	if c.Mode == 1 {
		if err := bcR.pool.Start(); err != nil {
			panic(err)
		}
		go func() {
			defer close(routineDone)
			defer func() {
				if r := recover(); r != nil {
					routinePanic.Store(c17BSite(fmt.Sprint(r), debug.Stack()))
				}
			}()
			bcR.poolRoutine(false)
		}()
	} else {
		close(routineDone)
	}
	defer func() {
		_ = bcR.Stop()
		if c.Mode == 1 {
			_ = bcR.pool.Stop()
			<-routineDone
		}
	}()
	panicked := func() string {
		if v := routinePanic.Load(); v != nil {
			return v.(string)
		}
		return ""
	}
	peer, other := newC17Peer("hostile"), newC17Peer("other")
	// poolRoutine resolves the peer of a request through the switch's peer set
	for _, p := range []*c17Peer{peer, other} {
		if err := sw.Peers().(*p2p.PeerSet).Add(p); err != nil {
			panic(err)
		}
	}
	recv := func(p *c17Peer, bz []byte) (pn string) {
		defer func() {
			if r := recover(); r != nil {
				pn = fmt.Sprint(r)
			}
		}()
		bcR.Receive(BlockchainChannel, p, bz)
		return ""
	}
	desc := fmt.Sprintf("%+v", c)
	if c.Known {
		if p := recv(peer, c17BMsg("StatusResponse", 0, 3, nil)); p != "" {
			panic("c17: legit StatusResponse panicked: " + p)
		}
		if c.Mode == 1 {
			if !c17BWait(peer.ev, func() bool { return peer.requested(1) && peer.requested(2) && peer.requested(3) || panicked() != "" }) {
				return "", "", "", "the pool did not request blocks 1..3 from the peer"
			}
		}
	}
	h0 := bcR.pool.height
	recvPanics := 0
	switch c.Kind {
	case "FarBlockBurst":
		// c.A well-formed BlockResponses for a height far from anything the pool asked for, one after the other, from one peer
		pb, err := e.blocks[3].ToProto()
		if err != nil {
			panic(err)
		}
		pb.Header.Height = 500
		msg := c17BMsg("BlockResponse", 0, 0, pb)
		done := make(chan int, 1)
		go func() {
			n := 0
			for i := int64(0); i < c.A; i++ {
				if recv(peer, msg) != "" {
					n++
				}
			}
			done <- n
		}()
		select {
		case n := <-done:
			recvPanics += n
		case <-time.After(30 * time.Second):
			return "blockchain/v0:Receive-does-not-return", fmt.Sprintf("after %d block responses for a far-away height from one peer, Receive has not returned for 30 s (the peer's receive routine is wedged): %s", c.A, desc), "", ""
		}
		// another peer's status must still get through
		sdone := make(chan struct{})
		go func() { recv(other, c17BMsg("StatusResponse", 0, 3, nil)); close(sdone) }()
		select {
		case <-sdone:
		case <-time.After(30 * time.Second):
			return "blockchain/v0:Receive-does-not-return", fmt.Sprintf("after %d block responses for a far-away height from one peer, another peer's StatusResponse has not been handled for 30 s: %s", c.A, desc), "", ""
		}
	case "BlockResponse":
		for i, bi := range c.Blocks {
			from := peer
			if c.Other && i == len(c.Blocks)-1 {
				from = other
			}
			if recv(from, c17BMsg("BlockResponse", 0, 0, e.menu[bi].pb)) != "" {
				recvPanics++
			}
		}
	default:
		if recv(peer, c17BMsg(c.Kind, c.A, c.B, nil)) != "" {
			recvPanics++
		}
	}
	// lock not left held
	if c.Mode == 0 {
		// nobody else uses the idle pool: the lock must be free right now
		if !bcR.pool.mtx.TryLock() {
			return "blockchain/v0:pool-mutex-left-locked-after-Receive", "pool.mtx still held after Receive returned: " + desc, "", ""
		}
	} else if !c17BWait(peer.ev, func() bool { return bcR.pool.mtx.TryLock() }) {
		// requesters take the lock legitimately; it must become free again
		return "", "", "", "pool.mtx could not be acquired within the timeout"
	}
	npeers, nreq := len(bcR.pool.peers), len(bcR.pool.requesters)
	bcR.pool.mtx.Unlock()
	if npeers > 2 || nreq > maxTotalRequesters {
		return "blockchain/v0:pool-grows-beyond-its-bounds", fmt.Sprintf("%d peer entries / %d requesters after messages of 2 peers: %s", npeers, nreq, desc), "", ""
	}
	reaction := "none"
	if c.Mode == 1 {
		first, second := bcR.pool.PeekTwoBlocks()
		if first != nil && second != nil {
			// the sync step must decide: advance, or drop the peer that supplied the pair
			ok := c17BWait(peer.ev, func() bool {
				if panicked() != "" {
					return true
				}
				bcR.pool.mtx.Lock()
				defer bcR.pool.mtx.Unlock()
				_, has := bcR.pool.peers[peer.id]
				return bcR.pool.height > h0 || !has
			})
			if !ok {
				return "", "", "", "two consecutive blocks in the pool but neither progress nor peer removal"
			}
			bcR.pool.mtx.Lock()
			if bcR.pool.height > h0 {
				reaction = "advanced"
			} else {
				reaction = "peer-dropped"
			}
			bcR.pool.mtx.Unlock()
		}
	}
	if p := panicked(); p != "" {
		return "blockchain/v0/reactor.go:poolRoutine:panic: " + p, "a peer message made poolRoutine panic (a bare goroutine in production: the process dies): " + desc, "", ""
	}
	out := c.Kind
	if recvPanics > 0 {
		out += ":recv-panic(peer-error)"
	} else if atomic.LoadInt32(&peer.stopped) > 0 {
		out += ":peer-stopped"
	} else {
		out += ":accepted"
	}
	return "", "", fmt.Sprintf("%s:%s:peers=%d", out, reaction, npeers), ""
}

func TestVerifC17Blockchain(t *testing.T) {
	r := vr.Start("C17", "blockchain", 60*time.Second, 8*time.Minute)
	defer r.Finish()
	r.Rule = "odometer over (node mode, peer known to the pool or not, message): numeric fields over {-1,0,1,h-1,h,h+1,MaxInt64}, BlockResponse over all ordered pairs (thorough: triples) of a 21-entry block menu, last block optionally from a peer the pool did not ask"
	r.Assume("the real poolRoutine runs in a harness goroutine with a recover; its tickers are production constants (10ms sync tick), waits are on conditions")
	e := newC17BEnv()
	defer os.RemoveAll(e.config.RootDir)
	var rc c17BCase
	if rep, skip := r.ReplayCase(&rc); skip {
		return
	} else if rep {
		r.Eval()
		k, w, _, inc := e.run(rc)
		if inc != "" {
			r.Cap(inc)
		}
		if k != "" {
			r.Violation(k, w, rc)
		}
		return
	}
	var cases []c17BCase
	hs := []int64{-1, 0, 1, 2, 3, 4, math.MaxInt64}
	for mode := 0; mode < 2; mode++ {
		for _, known := range []bool{false, true} {
			b := c17BCase{Mode: mode, Known: known}
			for _, k := range []string{"StatusRequest", "Empty", "Garbage"} {
				c := b
				c.Kind = k
				cases = append(cases, c)
			}
			for _, h := range hs {
				for _, k := range []string{"BlockRequest", "NoBlockResponse"} {
					c := b
					c.Kind, c.A = k, h
					cases = append(cases, c)
				}
				for _, h2 := range hs {
					c := b
					c.Kind, c.A, c.B = "StatusResponse", h, h2
					cases = append(cases, c)
				}
			}
			for _, cnt := range []int64{1, 1001, 2100} {
				c := b
				c.Kind, c.A = "FarBlockBurst", cnt
				cases = append(cases, c)
			}
			n := len(e.menu)
			for i := 0; i < n; i++ {
				for _, oth := range []bool{false, true} {
					c := b
					c.Kind, c.Blocks, c.Other = "BlockResponse", []int{i}, oth
					cases = append(cases, c)
				}
				for j := 0; j < n; j++ {
					if mode == 0 && j > 2 {
						continue // consensus mode: the pool is idle, pairs add nothing beyond the first few
					}
					for _, oth := range []bool{false, true} {
						c := b
						c.Kind, c.Blocks, c.Other = "BlockResponse", []int{i, j}, oth
						cases = append(cases, c)
					}
					if vr.Thorough() && mode == 1 && known {
						for k := 0; k < n; k++ {
							c := b
							c.Kind, c.Blocks = "BlockResponse", []int{i, j, k}
							cases = append(cases, c)
						}
					}
				}
			}
		}
	}
	for k, c := range cases {
		if !r.Mine(k + 1) {
			continue
		}
		if k%16 == 0 && r.Deadline("C17 blockchain enumeration") {
			break
		}
		r.Eval()
		r.NTCount(1)
		if c.Kind == "BlockResponse" {
			for _, bi := range c.Blocks {
				c.Names += e.menu[bi].name + " "
			}
		}
		key, what, out, inc := e.run(c)
		if inc != "" {
			r.Cap(inc)
			r.Outcome("inconclusive")
			continue
		}
		if key != "" {
			if !vr.Confirm(3, fmt.Errorf("%s", key), func() error {
				k2, _, _, _ := e.run(c)
				if k2 == "" {
					return nil
				}
				return fmt.Errorf("%s", k2)
			}) {
				r.Cap("unstable failure " + key)
				r.Note(fmt.Sprintf("unstable %s on %+v", key, c))
				continue
			}
			r.Violation(key, what, c)
			r.Outcome("violation")
			continue
		}
		r.Outcome(out)
		if k%499 == 1 {
			r.Sample(c)
		}
	}
	r.Bound = fmt.Sprintf("2 modes x 2 peer states x (3 shapeless kinds + 7 heights x {BlockRequest, NoBlockResponse} + 7x7 StatusResponse + singles/pairs%s over %d blocks)", map[bool]string{true: "/triples", false: ""}[vr.Thorough()], len(e.menu))
	if r.Shard == 0 {
		r.Set("cases_enumerated_total", len(cases))
	}
}
