package v0

// C05, part "fastsync": the commit pipeline of a node that is catching up through the block-sync reactor
// (blockchain/v0 poolRoutine: SaveBlock, then BlockExecutor.ApplyBlock = execute, save responses, application
// Commit, save state) instead of through consensus. The real started reactor syncs the canonical chain of the C13
// kit from honest peers, with block store and state store on journalled databases and an application that is
// durable at its Commit. Every entry of the journal is a crash point: the storage a restarted process would find
// is materialised (under both database durability policies), the node boots on it the way node.NewNode does
// (stores, state from the database, the real ABCI Handshaker), and then resumes fast sync to the tip. Nested once
// more in the thorough tier (crash points of the recovery's own journal, handshake included).
//
// Oracle, after every recovery: the handshake succeeds; application, state and block store are at one height;
// the reactor can be constructed on them; the resumed sync reaches the tip; the stores hold the canonical chain
// and the canonical state; the application committed every height exactly once, in order, across incarnations.

import (
	"fmt"
	"sync"
	"testing"
	"time"

	abci "github.com/tendermint/tendermint/abci/types"
	"github.com/tendermint/tendermint/consensus"
	"github.com/tendermint/tendermint/internal/verif/c13hand"
	"github.com/tendermint/tendermint/internal/verif/c13kit"
	"github.com/tendermint/tendermint/internal/verif/vos"
	"github.com/tendermint/tendermint/internal/verif/vr"
	"github.com/tendermint/tendermint/libs/log"
)

type c05fCase struct {
	Crashes []int  `json:"crashes"` // incarnation i is cut before entry Crashes[i] of its own journal
	DB      string `json:"db"`      // "process": every completed database write survives; "machine": only what was written with sync (and everything before it)
}

type c05fCommit struct {
	idx    int // journal index of the Commit's note: a crash before it means the Commit never happened
	height int64
}

// c05fApp is the canonical chain's application plus a durable height: what Commit has returned for survives a crash.
type c05fApp struct {
	c13kit.App
	mtx     sync.Mutex
	world   *vos.World
	height  int64
	cur     int64
	commits []c05fCommit
	inits   int
}

func (a *c05fApp) Info(abci.RequestInfo) abci.ResponseInfo {
	a.mtx.Lock()
	defer a.mtx.Unlock()
	return abci.ResponseInfo{LastBlockHeight: a.height}
}

func (a *c05fApp) InitChain(req abci.RequestInitChain) abci.ResponseInitChain {
	a.mtx.Lock()
	a.inits++
	a.mtx.Unlock()
	return a.App.InitChain(req)
}

func (a *c05fApp) BeginBlock(req abci.RequestBeginBlock) abci.ResponseBeginBlock {
	a.mtx.Lock()
	a.cur = req.Header.Height
	a.mtx.Unlock()
	return a.App.BeginBlock(req)
}

func (a *c05fApp) Commit() abci.ResponseCommit {
	a.mtx.Lock()
	defer a.mtx.Unlock()
	idx := a.world.JournalLen()
	a.world.Note(fmt.Sprintf("abci:Commit:%d", a.cur))
	a.height = a.cur
	a.commits = append(a.commits, c05fCommit{idx, a.cur})
	return a.App.Commit()
}

// heightAt: the application's durable height if the process is cut before journal entry k.
func (a *c05fApp) heightAt(k int, start int64) int64 {
	h := start
	for _, c := range a.commits {
		if c.idx < k {
			h = c.height
		}
	}
	return h
}

type c05fInc struct {
	w     *vos.World
	app   *c05fApp
	start int64 // application height this incarnation started with
	node  *c13kit.Node
}

func c05fSafely(f func() error) (err error) {
	defer func() {
		if x := recover(); x != nil {
			err = fmt.Errorf("panic: %v", x)
		}
	}()
	return f()
}

// c05fBoot: stores and state from the world, handshake with the application, heights compared.
func c05fBoot(chain *c13kit.Chain, w *vos.World, appHeight int64) (inc *c05fInc, key, what string) {
	app := &c05fApp{App: chain.NewApp(), world: w, height: appHeight}
	inc = &c05fInc{w: w, app: app, start: appHeight}
	err := c05fSafely(func() error {
		inc.node = chain.NewNodeOn(w.DB("blockstore"), w.DB("state"), app)
		hs := consensus.NewHandshaker(inc.node.StateStore, inc.node.Genesis, inc.node.BlockStore, chain.GenDoc)
		hs.SetLogger(log.NewNopLogger())
		if err := hs.Handshake(inc.node.Conns); err != nil {
			return fmt.Errorf("handshake: %w", err)
		}
		st, err := inc.node.StateStore.Load()
		if err != nil {
			return err
		}
		inc.node.Genesis = st
		return nil
	})
	if err != nil {
		return inc, "node:start-up-fails-after-crash-in-fast-sync", err.Error()
	}
	st := inc.node.Genesis
	app.mtx.Lock()
	ah := app.height
	app.mtx.Unlock()
	if bh := inc.node.BlockStore.Height(); st.LastBlockHeight != bh || ah != bh {
		return inc, "node:heights-disagree-after-handshake", fmt.Sprintf("application %d, state %d, block store %d", ah, st.LastBlockHeight, bh)
	}
	return inc, "", ""
}

func (inc *c05fInc) close() {
	if inc.node != nil {
		inc.node.Close()
	}
}

// c05fSync runs the real reactor on the incarnation's stores against honest peers until the state reaches the tip.
func c05fSync(chain *c13kit.Chain, inc *c05fInc) (key, what, inconcl string) {
	peerTimeout = 15 * time.Second
	var n *c13Net
	if err := c05fSafely(func() error { n = c13NewNetOn(chain, c13kit.Strategy{}, inc.node); return nil }); err != nil {
		return "blockchain/v0:reactor-cannot-be-built-on-recovered-stores", err.Error(), ""
	}
	defer func() {
		if n.bcR.IsRunning() {
			_ = n.bcR.Stop()
		}
		for _, p := range n.peers {
			if p.IsRunning() {
				_ = p.Stop()
			}
		}
	}()
	if c13Trace {
		n.trace = func(f string, a ...interface{}) { fmt.Printf(f+"\n", a...) }
		lg := log.NewTMLogger(c13Writer{n.trace})
		n.bcR.SetLogger(lg)
	}
	if err := n.bcR.Start(); err != nil {
		return "blockchain/v0:reactor-does-not-start-on-recovered-stores", err.Error(), ""
	}
	from := inc.node.Genesis.LastBlockHeight
	for h := from + 1; h <= c13kit.Tip+1; h++ {
		n.addPeer(h)
	}
	deadline := time.Now().Add(20 * time.Second)
	tick := time.NewTicker(time.Millisecond)
	defer tick.Stop()
	for {
		select {
		case ev := <-n.events:
			p := ev.peer
			if ev.height != p.H {
				continue
			}
			p.Asked = true
			p.Resp = chain.Respond(c13kit.Honest, p.H)
			n.answer(p)
		case <-n.hand.Done:
			return "", "", ""
		case <-tick.C:
			if st, err := inc.node.StateStore.Load(); err == nil && st.LastBlockHeight >= c13kit.Tip {
				return "", "", ""
			}
			if time.Now().After(deadline) {
				ph, np, nr := n.bcR.pool.GetStatus()
				st, _ := inc.node.StateStore.Load()
				return "", "", fmt.Sprintf("fast sync did not reach the tip within the per-case timeout (pool height %d, pending %d, requesters %d, state height %d, store height %d, peers %d)", ph, np, nr, st.LastBlockHeight, inc.node.BlockStore.Height(), len(n.peers))
			}
		}
	}
}

// c05fJudge: the end of the last incarnation.
func c05fJudge(chain *c13kit.Chain, incs []*c05fInc) (key, what string) {
	last := incs[len(incs)-1]
	st, err := last.node.StateStore.Load()
	if err != nil {
		return "node:state-unreadable", err.Error()
	}
	if st.LastBlockHeight < c13kit.Tip {
		return "blockchain/v0:resumed-sync-stops-short", fmt.Sprintf("state height %d, tip %d", st.LastBlockHeight, c13kit.Tip)
	}
	if k, w := chain.CheckStores(last.node, "blockchain/v0(after-crash)", nil); k != "" {
		return k, w
	}
	// the application across incarnations: each incarnation continues from the durable height and commits
	// consecutive heights; the last one ends at the tip
	for i, inc := range incs {
		h := inc.start
		inc.app.mtx.Lock()
		commits := append([]c05fCommit{}, inc.app.commits...)
		inc.app.mtx.Unlock()
		for _, c := range commits {
			if c.height != h+1 {
				return "abci:height-committed-out-of-order-or-twice", fmt.Sprintf("incarnation %d (application started at %d) committed height %d after %d", i, inc.start, c.height, h)
			}
			h = c.height
		}
		if i == len(incs)-1 && h != c13kit.Tip {
			return "abci:application-not-at-the-tip", fmt.Sprintf("application at %d, tip %d", h, c13kit.Tip)
		}
	}
	return "", ""
}

type c05fResult struct {
	key, what string
	inconcl   string
	journal   int // journal length of the last incarnation (crash points of one more level)
	prep      int
	entry     string // what the last crash point was
}

func c05fRun(chain *c13kit.Chain, c c05fCase) (res c05fResult) {
	pol := vos.Policy{KeepUnsynced: true, MachineDB: c.DB == "machine"}
	w := vos.NewWorld()
	worlds := []*vos.World{w}
	var incs []*c05fInc
	defer func() {
		for _, i := range incs {
			i.close()
		}
		for _, x := range worlds {
			x.Close()
		}
	}()
	appHeight := int64(0)
	for i := 0; ; i++ {
		inc, key, what := c05fBoot(chain, w, appHeight)
		incs = append(incs, inc)
		if i == 0 {
			// the first boot of a fresh node is not in the enumeration (C05 part pipeline has it)
			if key != "" {
				res.inconcl = "first boot failed: " + what
				return
			}
			w.SyncAll()
			res.prep = w.JournalLen()
		}
		// a crash point inside the boot of a recovery cuts it there; otherwise the boot is judged and the sync runs
		cut := -1
		if i < len(c.Crashes) {
			cut = c.Crashes[i]
		}
		if cut < 0 || cut >= w.JournalLen() {
			if key != "" {
				res.key, res.what = key, fmt.Sprintf("incarnation %d: %s", i, what)
				return
			}
			k, wh, inconcl := c05fSync(chain, inc)
			if k != "" {
				res.key, res.what = k, fmt.Sprintf("incarnation %d: %s", i, wh)
				return
			}
			if inconcl != "" {
				res.inconcl = inconcl
				return
			}
		}
		res.journal = w.JournalLen()
		if cut < 0 {
			break
		}
		if cut > w.JournalLen() {
			res.inconcl = "crash point beyond the incarnation's journal"
			return
		}
		if cut < w.JournalLen() {
			res.entry = w.Journal()[cut].String()
		} else {
			res.entry = "(end)"
		}
		appHeight = inc.app.heightAt(cut, inc.start)
		nw := w.Materialise(cut, pol)
		worlds = append(worlds, nw)
		w = nw
	}
	res.key, res.what = c05fJudge(chain, incs)
	return
}

func TestVerifC05FastSync(t *testing.T) {
	r := vr.Start("C05", "fastsync", 100*time.Second, 20*time.Minute)
	defer r.Finish()
	defer c13hand.Cleanup()
	r.Rule = "the real started blockchain/v0 reactor syncs the canonical 4-block chain (validator change at height 2) from honest peers on journalled block and state databases with an application durable at Commit; " +
		"for every journal entry k and both database durability policies: materialise the storage of a crash before k, boot (stores, real Handshaker), resume fast sync; " +
		"handshake succeeds, application/state/store heights agree, tip reached, canonical stores and state, every height committed once in order"
	chain := c13kit.NewBootedChain()
	var rc c05fCase
	if rep, skip := r.ReplayCase(&rc); skip {
		return
	} else if rep {
		r.Eval()
		res := c05fRun(chain, rc)
		if res.key != "" {
			r.Violation(res.key, res.what, rc)
		}
		return
	}
	depth := vr.Pick(2, 3)
	n := 0
	var rec func(prefix []int, db string, lo, hi, level int)
	rec = func(prefix []int, db string, lo, hi, level int) {
		for k := lo; k <= hi; k++ {
			c := c05fCase{Crashes: append(append([]int{}, prefix...), k), DB: db}
			mine := true
			if level == 1 {
				n++
				mine = r.Mine(n)
			}
			if !mine {
				continue
			}
			if r.Deadline("C05 fastsync crash points") {
				return
			}
			res := c05fRun(chain, c)
			r.Eval()
			switch {
			case res.inconcl != "":
				r.Outcome("inconclusive")
				r.Note(fmt.Sprintf("%v/%s: %s", c.Crashes, db, res.inconcl))
				continue
			case res.key != "":
				r.Outcome("violation:" + res.key)
				r.Violation(res.key, fmt.Sprintf("crash before %s: %s", res.entry, res.what), c)
				continue
			}
			r.NT(fmt.Sprintf("%s/%d/%s", db, level, res.entry))
			r.Outcome("recovered")
			if level < depth {
				rec(c.Crashes, db, 0, res.journal, level+1)
			}
		}
	}
	base := c05fRun(chain, c05fCase{DB: "process"})
	r.Eval()
	if base.key != "" {
		r.Violation(base.key, "without any crash: "+base.what, c05fCase{DB: "process"})
		return
	}
	if base.inconcl != "" {
		r.Note("crash-free run: " + base.inconcl)
		r.Cap("crash-free run inconclusive: " + base.inconcl)
		return
	}
	r.Set("journal_entries_of_the_sync", base.journal-base.prep)
	for _, db := range []string{"process", "machine"} {
		rec(nil, db, base.prep, base.journal, 1)
	}
	r.Bound = fmt.Sprintf("crash points nested to depth %d; %d entries in the journal of the crash-free sync; 2 database policies", depth, base.journal-base.prep)
}
