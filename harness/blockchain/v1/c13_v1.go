package v1

// C13 / part v1 — the real blockchain/v1 BlockchainReactor (its Receive, its FSM with the real BlockPool, its
// processBlock(), its reportPeerErrorToSwitch, its switchToConsensus) over real stores and a real switch with
// harness peers. poolRoutine and processBlocksRoutine are select loops over tickers and channels and cannot be
// driven deterministically, so the harness replaces exactly those two loops by a sequential dispatcher that
// performs what their cases perform: drain messagesForFSMCh / errorsForFSMCh into fsm.Handle, makeRequestsEv when
// fsm.NeedsBlocks(), the eventsFromFSMCh cases (peerErrorEv -> reportPeerErrorToSwitch (+ peerRemoveEv for
// errNoPeerResponse), syncFinishedEv -> done), and the "processBlock(); Handle(processedBlockEv)" loop.
// Timers become explicit steps that are taken only when nothing else can happen: first the FSM's state timeout
// (10 s in waitForBlock), then the response timers of peers with outstanding requests (15 s).
//
// v1's status event carries no base (every peer is taken to serve 1..height), so the scenario is "one peer at a
// time serves the whole chain": the strategy says what the j-th answer for height h is; a peer that is removed
// is replaced by a fresh one. With a single source this is the "sync from one lying peer" case.

import (
	"fmt"
	"strings"
	"testing"
	"time"

	"github.com/tendermint/tendermint/behaviour"
	"github.com/tendermint/tendermint/internal/verif/c13hand"
	"github.com/tendermint/tendermint/internal/verif/c13kit"
	"github.com/tendermint/tendermint/internal/verif/vr"
	"github.com/tendermint/tendermint/libs/log"
	"github.com/tendermint/tendermint/p2p"
)

type c13Case struct {
	Strategy c13kit.Strategy `json:"strategy"`
	Reverse  bool            `json:"reverse"`
}

type c13Req struct {
	peer   *c13hand.Peer
	height int64
}

type c13Answer struct {
	peer *c13hand.Peer
	h    int64
	resp *c13kit.Response
}

type c13Net struct {
	chain *c13kit.Chain
	node  *c13kit.Node
	bcR   *BlockchainReactor
	sw    *p2p.Switch
	hand  *c13hand.Reactor

	peers   []*c13hand.Peer
	cur     *c13hand.Peer
	answers map[int64]int // answers given so far per height
	given   []c13Answer
	reqs    []c13Req
	blamed  map[p2p.ID]string

	crashed    string
	midRestart string
	midCause   string
	early      string

	finished bool
	steps    int
	diags    []string
	notes    []string
}

func c13NewNet(chain *c13kit.Chain) *c13Net {
	n := &c13Net{chain: chain, node: chain.NewNode(), answers: map[int64]int{}, blamed: map[p2p.ID]string{}}
	n.sw = c13hand.NewSwitch()
	n.bcR = NewBlockchainReactor(n.node.Genesis.Copy(), n.node.BlockExec, n.node.BlockStore, true)
	n.bcR.SetLogger(log.NewNopLogger())
	n.hand = c13hand.NewReactor(chain, n.node)
	n.sw.AddReactor("BLOCKCHAIN", n.bcR)
	n.sw.AddReactor("CONSENSUS", n.hand)
	n.bcR.swReporter = behaviour.NewSwitchReporter(n.sw) // OnStart()
	return n
}

func (n *c13Net) close() {
	if t := n.bcR.fsm.stateTimer; t != nil {
		t.Stop()
	}
	n.bcR.fsm.pool.Cleanup()
	for _, p := range n.peers {
		if p.IsRunning() {
			_ = p.Stop()
		}
	}
	n.node.Close()
}

func c13Safely(f func()) (p string) {
	defer func() {
		if x := recover(); x != nil {
			p = fmt.Sprint(x)
		}
	}()
	f()
	return ""
}

func (n *c13Net) handle(msg bcReactorMessage) {
	n.steps++
	if p := c13Safely(func() { _ = n.bcR.fsm.Handle(&msg) }); p != "" {
		n.crashed, n.finished = "fsm.Handle: "+p, true
	}
}

// pump performs the channel cases of poolRoutine until all three channels are empty.
func (n *c13Net) pump() bool {
	any := false
	for {
		select {
		case msg := <-n.bcR.messagesForFSMCh:
			n.handle(msg)
		case msg := <-n.bcR.errorsForFSMCh:
			if msg.event == stateTimeoutEv {
				// a real timer of this case fired (the machine stalled for seconds): time is an explicit step here
				n.diags = append(n.diags, "real_state_timer_fired_ignored")
				continue
			}
			n.handle(msg)
		case msg := <-n.bcR.eventsFromFSMCh:
			switch msg.event {
			case syncFinishedEv:
				n.finished = true
			case peerErrorEv:
				n.blamed[msg.data.peerID] = msg.data.err.Error()
				n.bcR.reportPeerErrorToSwitch(msg.data.err, msg.data.peerID)
				if msg.data.err == errNoPeerResponse {
					n.handle(bcReactorMessage{event: peerRemoveEv, data: bReactorEventData{peerID: msg.data.peerID, err: msg.data.err}})
				}
			default:
				n.notes = append(n.notes, "event from FSM not supported")
			}
		default:
			return any
		}
		any = true
	}
}

func (n *c13Net) addPeer() {
	p := c13hand.NewPeer(0, len(n.peers), func(p *c13hand.Peer, height int64) bool {
		n.reqs = append(n.reqs, c13Req{p, height})
		return true
	}, nil)
	n.peers = append(n.peers, p)
	n.cur = p
	p2p.AddPeerToSwitchPeerSet(n.sw, p)
	n.bcR.AddPeer(p)
	n.bcR.Receive(BlockchainChannel, p, c13hand.Wire(c13kit.StatusMsg(1, c13kit.Tip+1)))
}

func (n *c13Net) inPool(p *c13hand.Peer) bool {
	_, ok := n.bcR.fsm.pool.peers[p.PID]
	return ok
}

type c13Result struct {
	Key, What, Outcome string
	Diags, Notes       []string
	Steps              int
}

func c13Run(chain *c13kit.Chain, c c13Case) (res c13Result) {
	n := c13NewNet(chain)
	defer n.close()
	n.bcR.fsm.Start()
	idle, stuck := 0, false
	for iter := 0; iter < 400 && !n.finished; iter++ {
		progress := n.pump()
		if n.cur == nil || !n.cur.IsRunning() || (!n.inPool(n.cur) && len(n.bcR.messagesForFSMCh) == 0) {
			n.addPeer()
			progress = true
		}
		progress = n.pump() || progress
		if n.finished {
			break
		}
		// sendBlockRequestTicker
		if n.bcR.fsm.NeedsBlocks() {
			before := len(n.reqs)
			n.handle(bcReactorMessage{event: makeRequestsEv, data: bReactorEventData{maxNumRequests: maxNumRequests}})
			if len(n.reqs) > before {
				progress = true
			}
		}
		progress = n.pump() || progress
		// the peer answers
		reqs := n.reqs
		n.reqs = nil
		if c.Reverse {
			for i, j := 0, len(reqs)-1; i < j; i, j = i+1, j-1 {
				reqs[i], reqs[j] = reqs[j], reqs[i]
			}
		}
		for _, q := range reqs {
			k := n.answers[q.height]
			n.answers[q.height] = k + 1
			resp := chain.Respond(c.Strategy.Next(q.height, k), q.height)
			n.given = append(n.given, c13Answer{q.peer, q.height, resp})
			if resp.Msg != nil && q.peer.IsRunning() {
				n.bcR.Receive(BlockchainChannel, q.peer, c13hand.Wire(resp.Msg))
			}
			progress = true
		}
		progress = n.pump() || progress
		// processBlocksRoutine's doProcessBlockCh case
		for i := 0; i < 16 && !n.finished; i++ {
			var err error
			if p := c13Safely(func() { err = n.bcR.processBlock() }); p != "" {
				n.crashed, n.finished = "processBlock: "+p, true
				break
			}
			if err == errMissingBlock {
				break
			}
			if err == nil && n.midRestart == "" {
				// crash point: the node is stopped right here and boots again on these stores
				if p, h, cause := c13hand.Restart(n.chain, n.node); p != "" {
					n.midRestart, n.midCause = fmt.Sprintf("restart with state height %d panics: %.200s", h, p), cause
				}
			}
			n.steps++
			n.handle(bcReactorMessage{event: processedBlockEv, data: bReactorEventData{err: err}})
			progress = true
			if err != nil {
				break
			}
			n.bcR.blocksSynced++
		}
		progress = n.pump() || progress
		if progress {
			idle = 0
			continue
		}
		for _, p := range n.peers {
			if why, ok := n.blamed[p.PID]; ok && p.IsRunning() && n.early == "" {
				n.early = "blockchain/v1:peer-not-stopped-after:blamed|" + fmt.Sprintf("the FSM reported peer %d for %q and the peer is still connected when the node runs out of events and has to wait for timeouts", p.K, why)
			}
		}
		idle++
		switch idle {
		case 1:
			// the FSM's state timer (waitForPeer 3 s / waitForBlock 10 s)
			n.diags = append(n.diags, "state_timeout_needed")
			n.handle(bcReactorMessage{event: stateTimeoutEv, data: bReactorEventData{stateName: n.bcR.fsm.state.name}})
		case 2:
			// the peers' block response timers (15 s)
			n.diags = append(n.diags, "peer_timeout_needed")
			for _, bp := range n.bcR.fsm.pool.peers {
				if bp.NumPendingBlockRequests > 0 {
					bp.onTimeout()
				}
			}
		default:
			stuck = true
		}
		if stuck {
			break
		}
	}
	n.pump()
	res.Diags, res.Notes, res.Steps = n.diags, n.notes, n.steps
	diag := func(s string) { res.Diags = append(res.Diags, s) }
	hr := n.hand.Result()
	if key, what := chain.CheckStores(n.node, "blockchain/v1", diag); key != "" {
		res.Key, res.What, res.Outcome = key, what, "violation"
		return
	}
	if n.crashed != "" {
		res.Key, res.What, res.Outcome = "blockchain/v1:node-panics-during-sync", n.crashed, "violation"
		return
	}
	if n.early != "" {
		kv := strings.SplitN(n.early, "|", 2)
		res.Key, res.What, res.Outcome = kv[0], kv[1], "violation"
		return
	}
	if hr.Called {
		tipLies := []string{}
		for _, a := range n.given {
			if a.h == hr.Height+1 {
				tipLies = append(tipLies, a.resp.Lie.String())
			}
		}
		if key, what := hr.Verdict("blockchain/v1", strings.Join(tipLies, ">")); key != "" {
			res.Key, res.What, res.Outcome = key, what, "violation"
			return
		}
	}
	if n.midRestart != "" {
		res.Key, res.What, res.Outcome = "blockchain/v1:restart-during-sync-panics:"+n.midCause, n.midRestart, "violation"
		return
	}
	st, err := n.node.StateStore.Load()
	if err != nil {
		panic(err)
	}
	for _, p := range n.peers {
		if why, ok := n.blamed[p.PID]; ok && p.IsRunning() {
			lies := []string{}
			for _, a := range n.given {
				if a.peer == p && a.resp.Lie != c13kit.Honest {
					lies = append(lies, a.resp.Lie.String())
				}
			}
			res.Key = "blockchain/v1:peer-not-stopped-after:" + strings.Join(lies, "+")
			res.What = fmt.Sprintf("the FSM reported peer %d for %q and the peer is still connected when the sync ends (state height %d)", p.K, why, st.LastBlockHeight)
			res.Outcome = "violation"
			return
		}
	}
	if !n.finished {
		why := "no event enabled, timeouts included"
		if !stuck {
			why = "400 dispatcher rounds"
		}
		res.Key = "blockchain/v1:sync-does-not-finish"
		res.What = fmt.Sprintf("%s; state height %d, pool height %d, fsm state %s, strategy %s", why, st.LastBlockHeight, n.bcR.fsm.pool.Height, n.bcR.fsm.state.name, c.Strategy)
		res.Outcome = "violation"
		return
	}
	if !hr.Called {
		res.Key = "blockchain/v1:finished-without-switching-to-consensus"
		res.What = "the FSM finished but the consensus reactor was not called"
		res.Outcome = "violation"
		return
	}
	if st.LastBlockHeight < c13kit.Tip && c.Strategy.NumLies() == 0 {
		res.Key = "blockchain/v1:honest-peers-only-and-tip-not-reached"
		res.What = fmt.Sprintf("every answer was the canonical block, yet block sync ended at height %d of %d", st.LastBlockHeight, c13kit.Tip)
		res.Outcome = "violation"
		return
	}
	if st.LastBlockHeight < c13kit.Tip {
		res.Outcome = fmt.Sprintf("early-switch@%d/handover-ok", st.LastBlockHeight)
		return
	}
	res.Outcome = fmt.Sprintf("synced/handover-ok/peers-used=%d", len(n.peers))
	return
}

func TestVerifC13V1(t *testing.T) {
	r := vr.Start("C13", "v1", 90*time.Second, 15*time.Minute)
	defer r.Finish()
	defer c13hand.Cleanup()
	r.Rule = "every adversary strategy with <= L lies over heights 1..5 ((height, j-th answer) -> lie), one source peer at a time, times two answer orders; sequential dispatcher over the real FSM and processBlock(); " +
		"strategies are distinct by construction; non-trivial = at least one lie"
	r.Assume("ed25519 is a black box; the adversary holds one validator key (< 1/3)")
	r.Assume("poolRoutine/processBlocksRoutine's select loops are replaced by one fixed order of their cases (plus two answer orders); timers are explicit steps taken only at quiescence")
	chain := c13kit.NewChain()
	var rc c13Case
	if rep, skip := r.ReplayCase(&rc); skip {
		return
	} else if rep {
		r.Eval()
		res := c13Run(chain, rc)
		if res.Key != "" {
			r.Violation(res.Key, res.What, rc)
		}
		r.Outcome(res.Outcome)
		return
	}
	// full menu up to one level below the deepest, core menu at the deepest level
	maxLies := vr.Pick(2, 3)
	menuFor := func(total int) []c13kit.Lie {
		if total >= maxLies {
			return c13kit.CoreMenu()
		}
		return c13kit.FullMenu()
	}
	k, levelDone, stop := 0, -1, false
	confirmed := map[string]bool{}
	c13kit.Enumerate(menuFor, maxLies, func(s c13kit.Strategy) bool {
		for _, c := range []c13Case{{Strategy: s}, {Strategy: s, Reverse: true}} {
			k++
			if !r.Mine(k) {
				continue
			}
			if k%64 == 0 && r.Deadline(fmt.Sprintf("v1 strategies with %d lies", s.NumLies())) {
				stop = true
				return false
			}
			r.Eval()
			if s.NumLies() > 0 {
				r.NTCount(1)
			}
			res := c13Run(chain, c)
			for _, d := range res.Diags {
				r.Add("diag_"+d, 1)
			}
			for _, nt := range res.Notes {
				r.Note(nt)
			}
			if res.Key != "" {
				if !confirmed[res.Key] {
					if !vr.Confirm(3, fmt.Errorf("%s", res.Key), func() error {
						r2 := c13Run(chain, c)
						if r2.Key == "" {
							return nil
						}
						return fmt.Errorf("%s", r2.Key)
					}) {
						panic("C13 v1 harness nondeterministic on " + c.Strategy.String())
					}
					confirmed[res.Key] = true
				}
				r.Violation(res.Key, res.What, c)
			}
			r.Outcome(res.Outcome)
			if k%197 == 1 {
				r.Sample(map[string]interface{}{"strategy": s.String(), "reverse": c.Reverse, "outcome": res.Outcome, "steps": res.Steps})
			}
		}
		if s.NumLies()-1 > levelDone {
			levelDone = s.NumLies() - 1
		}
		return true
	})
	if !stop {
		levelDone = maxLies
	}
	r.Bound = fmt.Sprintf("all strategies with <= %d lies (full menu of %d lie kinds below the deepest level, core menu of %d at the deepest; heights 1..%d) x 2 answer orders; asked for <= %d", levelDone, len(c13kit.FullMenu()), len(c13kit.CoreMenu()), c13kit.Tip+1, maxLies)
}
