package v2

// C13 / part v2 — blockchain/v2 is built from two pure step functions, scheduler.handle(event) and
// pcState.handle(event), glued by BlockchainReactor.demux (tickers + channel plumbing). The harness keeps the
// real BlockchainReactor object (its Receive/AddPeer/RemovePeer, its switchIO, its behaviour reporter), the real
// scheduler and the real processor over the real pContext (real BlockStore, real BlockExecutor), and replaces
// only demux's select loop by a sequential, deterministic dispatcher that routes every event exactly where demux
// routes it. Pacer events (rTrySchedule, rProcessBlock, rTryPrunePeer) become explicit steps; rTryPrunePeer is
// issued only when nothing else can happen, with a logical time 16 s ahead (that is how unanswered requests end).
// Because nothing here depends on the Go scheduler or the wall clock, "the node does not get to the tip although
// an honest peer for every height is on offer" is a decidable, replayable outcome in this part.
//
// Peers are those of the v0 part: each serves one height [h,h]; a peer the scheduler has removed (or the switch
// has stopped) is replaced by the next peer of the strategy for that height.

import (
	"fmt"
	"strings"
	"testing"
	"time"

	"github.com/tendermint/tendermint/behaviour"
	"github.com/tendermint/tendermint/internal/verif/c13hand"
	"github.com/tendermint/tendermint/internal/verif/c13kit"
	"github.com/tendermint/tendermint/internal/verif/vr"
	"github.com/tendermint/tendermint/libs/log"
	"github.com/tendermint/tendermint/p2p"
)

type c13Case struct {
	Strategy c13kit.Strategy `json:"strategy"`
	Reverse  bool            `json:"reverse"` // answer outstanding requests highest height first
	// Wide: instead of one peer per height, three peers that each offer the whole range 1..Tip+1; the first one tells WideLie for
	// every height it is asked for (where that lie exists), the others are honest; a dropped peer is replaced by an honest one
	Wide    bool       `json:"wide,omitempty"`
	WideLie c13kit.Lie `json:"wide_lie,omitempty"`
}

type c13Req struct {
	peer   *c13hand.Peer
	height int64
}

type c13Net struct {
	chain *c13kit.Chain
	node  *c13kit.Node
	r     *BlockchainReactor
	sc    *scheduler
	pc    *pcState
	sw    *p2p.Switch
	hand  *c13hand.Reactor
	strat c13kit.Strategy

	peers []*c13hand.Peer
	cur   map[int64]*c13hand.Peer
	nextK map[int64]int
	reqs  []c13Req

	// peers named in a pcBlockVerificationFailure (their block or commit was used in a verification that failed) or in
	// a scPeerError (the scheduler refused their message)
	blamed map[p2p.ID]string

	crashed    string // a production panic inside scheduler.handle / pcState.handle (the node process would die)
	midRestart string // first restart probe that panicked: "height/cause/panic"
	midCause   string
	early      string // violation found while running (key|what)

	schedStopped bool
	finished     bool
	notes        []string
	diags        []string
	steps        int
}

func c13NewNet(chain *c13kit.Chain, st c13kit.Strategy) *c13Net {
	n := &c13Net{chain: chain, node: chain.NewNode(), strat: st, cur: map[int64]*c13hand.Peer{}, nextK: map[int64]int{},
		blamed: map[p2p.ID]string{}}
	n.sw = c13hand.NewSwitch()
	// newReactor(), with the scheduler and processor kept reachable for inspection
	n.sc = newScheduler(1, time.Now())
	n.pc = newPcState(newProcessorContext(n.node.BlockStore, n.node.BlockExec, n.node.Genesis.Copy()))
	n.r = &BlockchainReactor{
		scheduler: newRoutine("scheduler", n.sc.handle, chBufferSize),
		processor: newRoutine("processor", n.pc.handle, chBufferSize),
		store:     n.node.BlockStore,
		logger:    log.NewNopLogger(),
		fastSync:  true,
	}
	n.hand = c13hand.NewReactor(chain, n.node)
	n.sw.AddReactor("BLOCKCHAIN", n.r) // SetSwitch -> switchIO
	n.sw.AddReactor("CONSENSUS", n.hand)
	n.r.reporter = behaviour.NewSwitchReporter(n.sw) // Start()
	n.r.events = make(chan Event, chBufferSize)      // startSync(), without the three goroutines
	return n
}

func (n *c13Net) close() { n.node.Close() }

func c13Safely(f func()) (p string) {
	defer func() {
		if x := recover(); x != nil {
			p = fmt.Sprint(x)
		}
	}()
	f()
	return ""
}

// ---- demux's routing, one event at a time ----

func (n *c13Net) fromPeers(ev Event) {
	switch e := ev.(type) {
	case bcStatusResponse:
		n.r.setMaxPeerHeight(e.height)
		n.toSched(e)
	case bcAddNewPeer, bcRemovePeer, bcBlockResponse, bcNoBlockResponse:
		n.toSched(ev)
	default:
		n.notes = append(n.notes, fmt.Sprintf("unexpected event from peers %T", ev))
	}
}

func (n *c13Net) toSched(ev Event) {
	if n.schedStopped {
		return
	}
	n.steps++
	var out Event
	var err error
	if p := c13Safely(func() { out, err = n.r.scheduler.handle(ev) }); p != "" {
		n.crashed, n.schedStopped, n.finished = "scheduler: "+p, true, true
		return
	}
	if err != nil {
		n.notes = append(n.notes, "scheduler aborted: "+err.Error())
		n.schedStopped = true
		return
	}
	switch e := out.(type) {
	case scBlockReceived:
		n.toProc(e)
	case scPeerError:
		n.blamed[e.peerID] = "scheduler: " + e.reason.Error()
		n.toProc(e)
		_ = n.r.reporter.Report(behaviour.BadMessage(e.peerID, "scPeerError"))
	case scBlockRequest:
		_ = n.r.io.sendBlockRequest(e.peerID, e.height)
	case scFinishedEv:
		n.toProc(e)
		n.schedStopped = true
	case scSchedulerFail:
		n.diags = append(n.diags, "scheduler_fail_event")
	case scPeersPruned:
		for _, id := range e.peers {
			n.toProc(scPeerError{peerID: id, reason: fmt.Errorf("peer was pruned")})
		}
	case noOpEvent:
	default:
		n.notes = append(n.notes, fmt.Sprintf("unexpected scheduler event %T", out))
	}
}

func (n *c13Net) toProc(ev Event) Event {
	if n.finished {
		return noOp
	}
	n.steps++
	var out Event
	var err error
	if p := c13Safely(func() { out, err = n.r.processor.handle(ev) }); p != "" {
		n.crashed, n.schedStopped, n.finished = "processor: "+p, true, true
		return noOp
	}
	if err != nil {
		n.notes = append(n.notes, "processor aborted: "+err.Error())
		n.finished = true
		return noOp
	}
	switch e := out.(type) {
	case pcBlockProcessed:
		n.r.setSyncHeight(e.height)
		// crash point: the node is stopped right here and boots again on these stores
		if n.midRestart == "" {
			if p, h, cause := c13hand.Restart(n.chain, n.node); p != "" {
				n.midRestart, n.midCause = fmt.Sprintf("restart with state height %d panics: %.200s", h, p), cause
			}
		}
		n.toSched(e)
	case pcBlockVerificationFailure:
		n.blamed[e.firstPeerID] = fmt.Sprintf("verification of block %d failed (first)", e.height)
		n.blamed[e.secondPeerID] = fmt.Sprintf("verification of block %d failed (second)", e.height)
		n.toSched(e)
	case pcFinished:
		n.r.io.trySwitchToConsensus(e.tmState, e.blocksSynced > 0 || n.r.stateSynced)
		n.finished = true
	case noOpEvent:
	default:
		n.notes = append(n.notes, fmt.Sprintf("unexpected processor event %T", out))
	}
	return out
}

// ---- peers ----

func (n *c13Net) addPeer(h int64) {
	k := n.nextK[h]
	n.nextK[h] = k + 1
	p := c13hand.NewPeer(h, k, func(p *c13hand.Peer, height int64) bool {
		n.reqs = append(n.reqs, c13Req{p, height})
		return true
	}, nil)
	n.peers = append(n.peers, p)
	n.cur[h] = p
	p2p.AddPeerToSwitchPeerSet(n.sw, p)
	n.r.AddPeer(p)
	n.r.Receive(BlockchainChannel, p, c13hand.Wire(c13kit.StatusMsg(h, h)))
}

// addWidePeer: a peer that offers every height (H = 0 marks it; K = ordinal)
func (n *c13Net) addWidePeer() *c13hand.Peer {
	k := n.nextK[0]
	n.nextK[0] = k + 1
	p := c13hand.NewPeer(0, k, func(p *c13hand.Peer, height int64) bool {
		n.reqs = append(n.reqs, c13Req{p, height})
		return true
	}, nil)
	n.peers = append(n.peers, p)
	p2p.AddPeerToSwitchPeerSet(n.sw, p)
	n.r.AddPeer(p)
	n.r.Receive(BlockchainChannel, p, c13hand.Wire(c13kit.StatusMsg(1, c13kit.Tip+1)))
	return p
}

func (n *c13Net) dropped(p *c13hand.Peer) bool {
	if !p.IsRunning() {
		return true
	}
	sp, ok := n.sc.peers[p.PID]
	return ok && sp.state == peerStateRemoved
}

func (n *c13Net) drain() bool {
	any := false
	for len(n.r.events) > 0 {
		n.fromPeers(<-n.r.events)
		any = true
	}
	return any
}

type c13Result struct {
	Key, What, Outcome string
	Diags, Notes       []string
	Steps              int
}

func c13Run(chain *c13kit.Chain, c c13Case) (res c13Result) {
	n := c13NewNet(chain, c.Strategy)
	defer n.close()
	defer func() {
		for _, p := range n.peers {
			if p.IsRunning() {
				_ = p.Stop()
			}
		}
	}()
	if c.Wide {
		for i := 0; i < 3; i++ {
			n.addWidePeer()
		}
	} else {
		for h := int64(1); h <= c13kit.Tip+1; h++ {
			n.addPeer(h)
		}
	}
	clock := time.Duration(0)
	idle := 0
	stuck := false
	for iter := 0; iter < 400 && !n.finished; iter++ {
		progress := n.drain()
		// a peer that was dropped is replaced by the next peer for that height
		for h := n.sc.height; h <= c13kit.Tip+1 && !n.schedStopped && !c.Wide; h++ {
			if p := n.cur[h]; p != nil && n.dropped(p) {
				n.addPeer(h)
				progress = true
			}
		}
		if c.Wide && !n.schedStopped {
			live := 0
			for _, p := range n.peers {
				if !n.dropped(p) {
					live++
				}
			}
			for ; live < 3 && len(n.peers) < 12; live++ {
				n.addWidePeer()
				progress = true
			}
		}
		progress = n.drain() || progress
		// rTrySchedule until nothing more is schedulable
		for i := 0; i < 32 && !n.schedStopped; i++ {
			before := len(n.reqs)
			n.toSched(rTrySchedule{time: time.Now()})
			if len(n.reqs) == before {
				break
			}
			progress = true
		}
		// the peers answer
		reqs := n.reqs
		n.reqs = nil
		if c.Reverse {
			for i, j := 0, len(reqs)-1; i < j; i, j = i+1, j-1 {
				reqs[i], reqs[j] = reqs[j], reqs[i]
			}
		}
		for _, q := range reqs {
			p := q.peer
			if c.Wide {
				// every request is answered on its own: the liar (the first wide peer) lies wherever its lie exists
				lie := c13kit.Honest
				if p.K == 0 && c13kit.Applicable(c.WideLie, q.height) {
					lie = c.WideLie
				}
				resp := chain.Respond(lie, q.height)
				if !p.Asked || !resp.Usable {
					p.Resp = resp // the oracle looks at the worst thing the peer said
				}
				p.Asked = true
				if resp.Msg != nil && p.IsRunning() {
					n.r.Receive(BlockchainChannel, p, c13hand.Wire(resp.Msg))
				}
				progress = true
				continue
			}
			if !p.Asked {
				p.Asked = true
				p.Resp = chain.Respond(c.Strategy.Next(p.H, p.K), q.height)
			}
			if p.Resp.Msg != nil && p.IsRunning() {
				n.r.Receive(BlockchainChannel, p, c13hand.Wire(p.Resp.Msg))
			}
			progress = true
		}
		progress = n.drain() || progress
		// rProcessBlock while blocks get processed
		for i := 0; i < 16 && !n.finished; i++ {
			out := n.toProc(rProcessBlock{})
			if _, ok := out.(pcBlockProcessed); ok {
				progress = true
				continue
			}
			if _, ok := out.(pcBlockVerificationFailure); ok {
				progress = true
			}
			break
		}
		progress = n.drain() || progress
		if progress {
			idle = 0
			continue
		}
		// nothing can happen without time passing. A peer that was blamed must have been dropped by now, not only
		// after the timeouts have cleaned up.
		for _, p := range n.peers {
			if why, ok := n.blamed[p.PID]; ok && !n.dropped(p) && n.early == "" {
				lie := "nothing"
				if p.Asked {
					lie = p.Resp.Lie.String()
				}
				n.early = "blockchain/v2:peer-not-dropped-after:" + lie + "|" + fmt.Sprintf("peer for height %d (answered %q) was blamed (%s) and is still a block source when the node runs out of events and has to wait for timeouts", p.H, lie, why)
			}
		}
		// time passes, the prune ticker fires
		idle++
		if idle > 3 {
			stuck = true
			break
		}
		clock += 16 * time.Second
		n.toSched(rTryPrunePeer{time: time.Now().Add(clock)})
		n.diags = append(n.diags, "prune_tick_needed")
	}
	res.Diags, res.Notes, res.Steps = n.diags, n.notes, n.steps
	diag := func(s string) { res.Diags = append(res.Diags, s) }
	hr := n.hand.Result()

	if key, what := chain.CheckStores(n.node, "blockchain/v2", diag); key != "" {
		res.Key, res.What, res.Outcome = key, what, "violation"
		return
	}
	if n.crashed != "" {
		res.Key, res.What, res.Outcome = "blockchain/v2:node-panics-during-sync", n.crashed, "violation"
		return
	}
	if n.early != "" {
		kv := strings.SplitN(n.early, "|", 2)
		res.Key, res.What, res.Outcome = kv[0], kv[1], "violation"
		return
	}
	if hr.Called {
		tipLies := []string{}
		for _, p := range n.peers {
			if p.H == hr.Height+1 && p.Asked {
				tipLies = append(tipLies, p.Resp.Lie.String())
			}
		}
		if key, what := hr.Verdict("blockchain/v2", strings.Join(tipLies, ">")); key != "" {
			res.Key, res.What, res.Outcome = key, what, "violation"
			return
		}
	}
	if n.midRestart != "" {
		res.Key, res.What, res.Outcome = "blockchain/v2:restart-during-sync-panics:"+n.midCause, n.midRestart, "violation"
		return
	}
	st, err := n.node.StateStore.Load()
	if err != nil {
		panic(err)
	}
	for _, p := range n.peers {
		if why, ok := n.blamed[p.PID]; ok && !n.dropped(p) {
			lie := "nothing"
			if p.Asked {
				lie = p.Resp.Lie.String()
			}
			res.Key = "blockchain/v2:peer-not-dropped-after:" + lie
			res.What = fmt.Sprintf("peer for height %d (answered %q) was blamed (%s) and is still a block source when the sync ends (state height %d)", p.H, lie, why, st.LastBlockHeight)
			res.Outcome = "violation"
			return
		}
	}
	if !n.finished {
		// deterministic: no event is enabled any more (or 400 rounds were not enough) and the processor never finished
		why := "no event enabled"
		if !stuck {
			why = "400 dispatcher rounds"
		}
		res.Key = "blockchain/v2:sync-does-not-finish"
		res.What = fmt.Sprintf("%s, state height %d, scheduler height %d, strategy %s", why, st.LastBlockHeight, n.sc.height, c.Strategy)
		res.Outcome = "violation"
		return
	}
	if !hr.Called {
		res.Key = "blockchain/v2:finished-without-switching-to-consensus"
		res.What = "pcFinished was produced but the consensus reactor was not called"
		res.Outcome = "violation"
		return
	}
	kept := 0
	for _, p := range n.peers {
		if p.Asked && !p.Resp.Usable && p.IsRunning() {
			kept++
		}
	}
	if kept > 0 {
		diag("bad_peer_removed_from_scheduler_but_still_connected")
	}
	if st.LastBlockHeight < c13kit.Tip && c.Strategy.NumLies() == 0 && !(c.Wide && c.WideLie != c13kit.Honest) {
		res.Key = "blockchain/v2:honest-peers-only-and-tip-not-reached"
		res.What = fmt.Sprintf("every answer was the canonical block, yet block sync ended at height %d of %d", st.LastBlockHeight, c13kit.Tip)
		res.Outcome = "violation"
		return
	}
	if st.LastBlockHeight < c13kit.Tip {
		// v2 finishes as soon as its height reaches the greatest height among the peers it still has; when the peers of
		// the top heights are removed it hands over early and consensus has to fetch the rest.
		res.Outcome = fmt.Sprintf("early-switch@%d/handover-ok", st.LastBlockHeight)
		return
	}
	res.Outcome = "synced/handover-ok"
	return
}

func TestVerifC13V2(t *testing.T) {
	r := vr.Start("C13", "v2", 90*time.Second, 15*time.Minute)
	defer r.Finish()
	defer c13hand.Cleanup()
	r.Rule = "every adversary strategy with <= L lies over heights 1..5 ((height, successive peer) -> lie), times two answer orders; sequential dispatcher over the real scheduler.handle / pcState.handle; " +
		"strategies are distinct by construction; non-trivial = at least one lie"
	r.Assume("ed25519 is a black box; the adversary holds one validator key (< 1/3)")
	r.Assume("the order in which demux's channels and priority queues deliver events is replaced by one fixed depth-first order (plus two answer orders); the handlers themselves are the production code")
	chain := c13kit.NewChain()
	var rc c13Case
	if rep, skip := r.ReplayCase(&rc); skip {
		return
	} else if rep {
		r.Eval()
		res := c13Run(chain, rc)
		if res.Key != "" {
			r.Violation(res.Key, res.What, rc)
		}
		r.Outcome(res.Outcome)
		return
	}
	// full menu up to one level below the deepest, core menu at the deepest level
	maxLies := vr.Pick(2, 3)
	menuFor := func(total int) []c13kit.Lie {
		if total >= maxLies {
			return c13kit.CoreMenu()
		}
		return c13kit.FullMenu()
	}
	k, levelDone, stop := 0, -1, false
	confirmed := map[string]bool{}
	// peers that each offer the whole range (so that a peer has several blocks waiting in the processor): one liar with every
	// kind of lie, two honest ones, both answer orders
	for _, lie := range append([]c13kit.Lie{c13kit.Honest}, c13kit.FullMenu()...) {
		for _, rev := range []bool{false, true} {
			k++
			if !r.Mine(k) {
				continue
			}
			c := c13Case{Wide: true, WideLie: lie, Reverse: rev}
			r.Eval()
			r.Traces++
			r.NTCount(1)
			res := c13Run(chain, c)
			r.Transitions += int64(res.Steps)
			if res.Key != "" {
				if r2 := c13Run(chain, c); r2.Key != res.Key {
					panic("C13 v2 harness nondeterministic on a wide-peer case")
				}
				r.Violation(res.Key, res.What, c)
			}
			r.Outcome("wide:" + res.Outcome)
		}
	}
	c13kit.Enumerate(menuFor, maxLies, func(s c13kit.Strategy) bool {
		for _, c := range []c13Case{{Strategy: s}, {Strategy: s, Reverse: true}} {
			k++
			if !r.Mine(k) {
				continue
			}
			if k%64 == 0 && r.Deadline(fmt.Sprintf("v2 strategies with %d lies", s.NumLies())) {
				stop = true
				return false
			}
			r.Eval()
			r.Traces++
			if s.NumLies() > 0 {
				r.NTCount(1)
			}
			res := c13Run(chain, c)
			r.Transitions += int64(res.Steps)
			for _, d := range res.Diags {
				r.Add("diag_"+d, 1)
			}
			for _, nt := range res.Notes {
				r.Note(nt)
			}
			if res.Key != "" {
				if !confirmed[res.Key] {
					if !vr.Confirm(3, fmt.Errorf("%s", res.Key), func() error {
						r2 := c13Run(chain, c)
						if r2.Key == "" {
							return nil
						}
						return fmt.Errorf("%s", r2.Key)
					}) {
						panic("C13 v2 harness nondeterministic on " + c.Strategy.String())
					}
					confirmed[res.Key] = true
				}
				r.Violation(res.Key, res.What, c)
			}
			r.Outcome(res.Outcome)
			if k%197 == 1 {
				r.Sample(map[string]interface{}{"strategy": s.String(), "reverse": c.Reverse, "outcome": res.Outcome, "steps": res.Steps})
			}
		}
		if s.NumLies()-1 > levelDone {
			levelDone = s.NumLies() - 1
		}
		return true
	})
	if !stop {
		levelDone = maxLies
	}
	r.Bound = fmt.Sprintf("all strategies with <= %d lies (full menu of %d lie kinds below the deepest level, core menu of %d at the deepest; heights 1..%d) x 2 answer orders; asked for <= %d", levelDone, len(c13kit.FullMenu()), len(c13kit.CoreMenu()), c13kit.Tip+1, maxLies)
}
