package v2

// C13 / part commits — the commit that accompanies the last block, enumerated slot by slot through the real
// accept-and-store step of block sync. For the tip height (5 validators) and a height of the 4-validator set,
// every commit whose slots are drawn from a 7-kind menu is put, as the LastCommit of block h+1, in front of the
// real processor: pcState.handle(scBlockReceived{h}), pcState.handle(scBlockReceived{h+1}),
// pcState.handle(rProcessBlock{}) over the real pContext (verifyCommit, BlockStore.SaveBlock, BlockExecutor.ApplyBlock)
// on stores that an honest sync filled up to h-1. What the processor accepts is what it has stored; those stores go
// through the hand-over (internal/verif/c13hand: consensus.NewState, Reactor.SwitchToConsensus, restart).
// No assumption is made about which verification function block sync uses.

import (
	"fmt"
	"testing"
	"time"

	"github.com/tendermint/tendermint/internal/verif/c13hand"
	"github.com/tendermint/tendermint/internal/verif/c13kit"
	"github.com/tendermint/tendermint/internal/verif/vr"
	"github.com/tendermint/tendermint/p2p"
)

type c13CCase struct {
	Height int64 `json:"height"`
	Kinds  []int `json:"kinds"`
}

func c13CRun(chain *c13kit.Chain, c c13CCase) (key, what, outcome string) {
	h := c.Height
	commit := chain.SlotCommit(h, c.Kinds)
	second := chain.CarrierBlock(h, commit)
	if second == nil {
		return "", "", "not-wire-expressible"
	}
	truth := c13kit.RefCommit(chain.ValsAt(h), h, chain.IDs[h], commit)
	node := chain.NewNodeAt(h - 1)
	defer node.Close()
	pc := newPcState(newProcessorContext(node.BlockStore, node.BlockExec, chain.States[h-1].Copy()))
	if _, err := pc.handle(scBlockReceived{peerID: p2p.ID("P1"), block: chain.Blocks[h]}); err != nil {
		panic(err)
	}
	if _, err := pc.handle(scBlockReceived{peerID: p2p.ID("P2"), block: second}); err != nil {
		panic(err)
	}
	out, err := pc.handle(rProcessBlock{})
	if err != nil {
		panic(err)
	}
	switch out.(type) {
	case pcBlockVerificationFailure:
		if truth.Quorum() && len(truth.BadSlots) == 0 {
			return "blockchain/v2:honest-commit-rejected",
				fmt.Sprintf("height %d, slots %v: every present slot is a valid vote, %d of %d for the block, and the processor reports a verification failure", h, c13kit.SlotNames(c.Kinds), truth.ForBlock, truth.Total), "violation"
		}
		if node.BlockStore.Height() != h-1 {
			return "blockchain/v2:stored-despite-verification-failure", fmt.Sprint(c13kit.SlotNames(c.Kinds)), "violation"
		}
		return "", "", "rejected"
	case pcBlockProcessed:
	default:
		return "blockchain/v2:processor-unexpected-event", fmt.Sprintf("%T on %v", out, c13kit.SlotNames(c.Kinds)), "violation"
	}
	if !truth.Quorum() {
		return "blockchain/v2:stored-without-two-thirds-commit",
			fmt.Sprintf("height %d, slots %v: stored with %d of %d valid for-block power", h, c13kit.SlotNames(c.Kinds), truth.ForBlock, truth.Total), "violation"
	}
	if key, what := chain.CheckStores(node, "blockchain/v2", nil); key != "" {
		return key, what, "violation"
	}
	st, err := node.StateStore.Load()
	if err != nil {
		panic(err)
	}
	hand := c13hand.NewReactor(chain, node)
	hand.SwitchToConsensus(st, true)
	if key, what := hand.Result().Verdict("blockchain/v2", fmt.Sprint(c13kit.SlotNames(c.Kinds))); key != "" {
		return key, what, "violation"
	}
	return "", "", "stored/handover-ok"
}

func TestVerifC13V2Commits(t *testing.T) {
	r := vr.Start("C13", "commits", 90*time.Second, 8*time.Minute)
	defer r.Finish()
	defer c13hand.Cleanup()
	r.Rule = "odometer over the slot kinds (7 per slot) of the commit that accompanies the last block, for a 5-validator and a 4-validator height, through the real v2 processor; " +
		"commits are distinct by construction; non-trivial = not all slots plain for-block"
	r.Assume("ed25519 is a black box; the harness signed (or deliberately mis-signed) every slot")
	chain := c13kit.NewChain()
	var rc c13CCase
	if rep, skip := r.ReplayCase(&rc); skip {
		return
	} else if rep {
		r.Eval()
		key, what, out := c13CRun(chain, rc)
		if key != "" {
			r.Violation(key, what, rc)
		}
		r.Outcome(out)
		return
	}
	k := 0
	confirmed := map[string]bool{}
	for _, h := range []int64{c13kit.Tip, 2} {
		n := chain.ValsAt(h).Size()
		idx := make([]int, n)
		for {
			c := c13CCase{Height: h, Kinds: append([]int{}, idx...)}
			k++
			if r.Mine(k) {
				if k%256 == 0 && r.Deadline("commit enumeration") {
					return
				}
				r.Eval()
				triv := true
				for _, x := range idx {
					if x != c13kit.SlotValid {
						triv = false
					}
				}
				if !triv {
					r.NTCount(1)
				}
				key, what, out := c13CRun(chain, c)
				if key != "" {
					if !confirmed[key] {
						if !vr.Confirm(3, fmt.Errorf("%s", key), func() error {
							k2, _, _ := c13CRun(chain, c)
							if k2 == "" {
								return nil
							}
							return fmt.Errorf("%s", k2)
						}) {
							panic("C13 commits harness nondeterministic on " + fmt.Sprint(c))
						}
						confirmed[key] = true
					}
					r.Violation(key, what, c)
				}
				r.Outcome(out)
				if k%3001 == 7 {
					r.Sample(map[string]interface{}{"height": h, "slots": c13kit.SlotNames(c.Kinds), "outcome": out})
				}
			}
			i := 0
			for ; i < n; i++ {
				idx[i]++
				if idx[i] < c13kit.NSlotKinds {
					break
				}
				idx[i] = 0
			}
			if i == n {
				break
			}
		}
	}
	r.Bound = "all 7^5 commits for the tip height (5 validators) and all 7^4 for height 2 (4 validators)"
}
