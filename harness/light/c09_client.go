package light

// C09 part "client" — the real light.Client (sequential and skipping) over harness providers and a
// MemDB store. Enumerated: provider behaviours (primary x 1..3 witnesses), API call sequences, and
// EVERY order in which witness replies arrive. Reply order is forced, not hoped for: a provider call
// made from one of the client's fan-out goroutines blocks on a gate; the controller opens exactly one
// gate when (a) the goroutine running the API call is parked in a channel receive and (b) every other
// goroutine that has light-client frames is parked at a gate, i.e. the previously released reply has
// been consumed and the collector is waiting for the next one. All waits are on such conditions
// (goroutine states read from runtime.Stack), with a long timeout that ends the trace inconclusive.

import (
	"os"
	"bytes"
	"context"
	"errors"
	"fmt"
	"runtime"
	"sort"
	"strconv"
	"strings"
	"sync"
	"testing"
	"time"

	dbm "github.com/tendermint/tm-db"

	"github.com/tendermint/tendermint/internal/verif/vr"
	tmmath "github.com/tendermint/tendermint/libs/math"
	"github.com/tendermint/tendermint/light/provider"
	dbs "github.com/tendermint/tendermint/light/store/db"
	"github.com/tendermint/tendermint/types"
)

// provider kinds
const (
	c09KHonest = iota
	c09KEquiv
	c09KGarbage
	c09KNoResponse
	c09KNotFound
	c09KTooHighCatch // first request above the root: height too high; afterwards honest
	c09KBadBlock     // provider.ErrBadLightBlock above the root
	c09KLunatic
	c09KWeak
	c09KTooHighBehind // always too high above the root; its latest block is the root
	c09KOtherError    // an arbitrary error above the root
	c09KEquivPivot    // primary only: forged (verifiable) at heights strictly between root and top, honest at the top
	c09KGarbagePivot  // primary only: unverifiable garbage strictly between root and top, honest at the top
	c09KTooHighFork   // first request above the root: height too high; afterwards the equivocation fork
	// still behind when asked for its latest block (serves the block below the first misbehaving height), caught up only
	// when the detector comes back after its waiting period: then honest / the equivocation fork
	c09KTooHighCatchLate
	c09KTooHighForkLate
	// primary only: honest below, no block at the height under the top ("not found": a bisection pivot cannot be fetched), unverifiable garbage at the top
	c09KGarbageTopGap
	// primary only: the (verifiable) equivocation fork at the top, half-signed headers at the heights between root and top: a
	// bisection pivot is invalid (not merely untrusted), the primary is replaced, and the forged top has to survive the witnesses once more
	c09KEquivTopGarbagePivot
	c09NKinds
)

var c09KindNames = []string{"honest", "equivocation-fork", "garbage", "no-response", "not-found", "too-high-then-catches-up",
	"bad-block-error", "lunatic-fork", "half-signed", "too-high-stays-behind", "other-error", "forged-pivots(verifiable)", "forged-pivots(garbage)", "too-high-then-serves-fork",
	"too-high-catches-up-during-the-wait", "too-high-serves-fork-after-the-wait", "garbage-top-with-missing-pivot", "forged-top(verifiable)-with-invalid-pivots"}

type c09CCase struct {
	Pattern int     `json:"pattern"`
	Profile int     `json:"power_profile"`
	H       int     `json:"heights"`
	Root    int64   `json:"root"`
	From    int64   `json:"misbehave_from"` // first height at which non-honest behaviour shows (normally root+1)
	Mode    int     `json:"mode"`           // 1 sequential, 2 skipping
	Num     uint64  `json:"num"`
	Den     uint64  `json:"den"`
	Primary int     `json:"primary"`
	Wit     []int   `json:"witnesses"`
	Order   []int   `json:"reply_order"` // witness numbers (1-based) in the order their replies are let through; a demoted primary comes last
	Calls   []int64 `json:"calls"`       // h>0: VerifyLightBlockAtHeight(h); 0: Update
	Init    int     `json:"init"`        // 0: NewClient fetches and cross-checks the root; 1: root already in the store
}

// ---------------------------------------------------------------------------------------------
// providers

type c09Served struct {
	Call   int
	Round  int
	Prov   int
	Height int64
	Async  bool // served to a fan-out goroutine (a witness request), not to the goroutine running the API call
	D      *c09Desc
	Err    error
}

type c09Ev struct {
	Call int
	Prov int
	Ev   *types.LightClientAttackEvidence
}

type c09Prov struct {
	id   int
	kind int
	w    *c09World
	from int64
	s    *c09Sched

	mu          sync.Mutex
	tooHighSeen int // answers given while still behind
}

func (p *c09Prov) ChainID() string { return c09ChainID }
func (p *c09Prov) String() string  { return fmt.Sprintf("c09prov#%d(%s)", p.id, c09KindNames[p.kind]) }

// view: the block this provider holds at height h (nil: none), ignoring transient errors.
func (p *c09Prov) view(h int64) *c09Desc {
	if h < 1 || h > int64(p.w.H) {
		return nil
	}
	hon := p.w.Blocks[c09FamHonest][h]
	if h < p.from {
		return hon
	}
	switch p.kind {
	case c09KHonest, c09KTooHighCatch, c09KTooHighCatchLate:
		return hon
	case c09KEquiv, c09KTooHighFork, c09KTooHighForkLate:
		return p.w.Blocks[c09FamEquiv][h]
	case c09KGarbage:
		return p.w.Blocks[c09FamGarbage][h]
	case c09KLunatic:
		return p.w.Blocks[c09FamLunatic][h]
	case c09KWeak:
		return p.w.Blocks[c09FamWeak][h]
	case c09KEquivPivot:
		if h < int64(p.w.H) {
			return p.w.Blocks[c09FamEquiv][h]
		}
		return hon
	case c09KGarbagePivot:
		if h < int64(p.w.H) {
			return p.w.Blocks[c09FamGarbage][h]
		}
		return hon
	case c09KEquivTopGarbagePivot:
		if h == int64(p.w.H) {
			return p.w.Blocks[c09FamEquiv][h]
		}
		return p.w.Blocks[c09FamWeak][h] // right validator sets, commit signed by half of the power: ErrInvalidHeader at the pivot
	case c09KGarbageTopGap:
		if h == int64(p.w.H) {
			return p.w.Blocks[c09FamGarbage][h]
		}
		if h == int64(p.w.H)-1 {
			return nil
		}
		return hon
	}
	return nil
}

func (p *c09Prov) pureView() bool {
	switch p.kind {
	case c09KHonest, c09KTooHighCatch, c09KTooHighFork, c09KTooHighCatchLate, c09KTooHighForkLate, c09KGarbageTopGap, c09KEquiv, c09KGarbage, c09KLunatic, c09KWeak, c09KEquivPivot, c09KGarbagePivot, c09KEquivTopGarbagePivot:
		return true
	}
	return false
}

var errC09Other = errors.New("verif-c09: connection reset")

func (p *c09Prov) answer(h int64) (*c09Desc, error) {
	p.mu.Lock()
	defer p.mu.Unlock()
	if h < 0 {
		return nil, errors.New("negative height")
	}
	latest := h == 0
	if latest {
		h = int64(p.w.H)
	}
	if h > int64(p.w.H) {
		return nil, provider.ErrHeightTooHigh
	}
	if h >= p.from {
		switch p.kind {
		case c09KNoResponse:
			return nil, provider.ErrNoResponse
		case c09KNotFound:
			return nil, provider.ErrLightBlockNotFound
		case c09KBadBlock:
			return nil, provider.ErrBadLightBlock{Reason: errors.New("verif-c09: malformed")}
		case c09KOtherError:
			return nil, errC09Other
		case c09KTooHighCatch, c09KTooHighFork, c09KTooHighCatchLate, c09KTooHighForkLate:
			behindFor := 1
			if p.kind == c09KTooHighCatchLate || p.kind == c09KTooHighForkLate {
				behindFor = 2
			}
			if p.tooHighSeen < behindFor {
				p.tooHighSeen++
				if latest {
					return p.w.Blocks[c09FamHonest][p.from-1], nil
				}
				return nil, provider.ErrHeightTooHigh
			}
		case c09KTooHighBehind:
			if latest {
				return p.w.Blocks[c09FamHonest][p.from-1], nil
			}
			return nil, provider.ErrHeightTooHigh
		}
	}
	d := p.view(h)
	if d == nil {
		return nil, provider.ErrLightBlockNotFound
	}
	return d, nil
}

func (p *c09Prov) LightBlock(ctx context.Context, height int64) (*types.LightBlock, error) {
	s := p.s
	if err := ctx.Err(); err != nil {
		return nil, err // a cancelled call gets no answers (stale fan-out goroutines must not write into the log of a later call)
	}
	g := c09Goid()
	s.mu.Lock()
	async := g != s.gid
	if async && !s.released[g] {
		if !s.roundOpen {
			s.roundOpen = true
			s.round++
			s.roundProvs = map[int]bool{}
		}
		s.roundProvs[p.id] = true
		pend := &c09Pend{prov: p.id, gate: make(chan struct{}), goid: g}
		s.pending[g] = pend
		s.mu.Unlock()
		select {
		case <-pend.gate:
		case <-ctx.Done():
			s.mu.Lock()
			if _, still := s.pending[g]; still {
				delete(s.pending, g)
				s.cancelled++
				if len(s.pending) == 0 {
					s.roundOpen = false
				}
				s.mu.Unlock()
				return nil, ctx.Err()
			}
			s.mu.Unlock() // released and cancelled at once: the release wins, answer below
		}
	} else {
		s.mu.Unlock()
	}
	d, err := p.answer(height)
	s.mu.Lock()
	s.served = append(s.served, c09Served{Call: s.callNo, Round: s.round, Prov: p.id, Height: height, Async: async, D: d, Err: err})
	s.mu.Unlock()
	if err != nil {
		return nil, err
	}
	return d.LB, nil
}

func (p *c09Prov) ReportEvidence(_ context.Context, ev types.Evidence) error {
	s := p.s
	s.mu.Lock()
	defer s.mu.Unlock()
	if lcae, ok := ev.(*types.LightClientAttackEvidence); ok {
		s.evidence = append(s.evidence, c09Ev{Call: s.callNo, Prov: p.id, Ev: lcae})
	}
	return nil
}

// ---------------------------------------------------------------------------------------------
// gating scheduler

type c09Pend struct {
	prov int
	gate chan struct{}
	goid int64
}

type c09Sched struct {
	mu         sync.Mutex
	gid        int64 // goroutine running the current API call
	ctl        int64 // controller (test) goroutine
	pending    map[int64]*c09Pend
	released   map[int64]bool
	relCall    map[int64]int // call number in which a goroutine was let through
	rank       map[int]int
	served     []c09Served
	evidence   []c09Ev
	callNo     int
	round      int
	roundOpen  bool
	roundProvs map[int]bool
	done       bool
	cancelled  int
	decisions  []int
	base       map[int64]bool // goroutines that are none of our business (alive before, or leaked and written off)
	buf        []byte
	polls      int64
}

func c09Goid() int64 {
	var b [64]byte
	n := runtime.Stack(b[:], false)
	// "goroutine 123 [running]:"
	f := bytes.Fields(b[:n])
	if len(f) < 2 {
		panic("c09: cannot parse goroutine id")
	}
	id, err := strconv.ParseInt(string(f[1]), 10, 64)
	if err != nil {
		panic("c09: cannot parse goroutine id: " + err.Error())
	}
	return id
}

type c09G struct {
	id    int64
	state string
	light bool // has frames of package light (client code or these providers)
}

var c09LightMark = []byte("tendermint/light.")

func (s *c09Sched) snapshot() []c09G {
	n := runtime.Stack(s.buf, true)
	for n >= len(s.buf) {
		s.buf = make([]byte, 2*len(s.buf))
		n = runtime.Stack(s.buf, true)
	}
	s.polls++
	text := s.buf[:n]
	out := make([]c09G, 0, 16)
	for len(text) > 0 {
		end := bytes.Index(text, []byte("\n\n"))
		var blk []byte
		if end < 0 {
			blk, text = text, nil
		} else {
			blk, text = text[:end], text[end+2:]
		}
		if !bytes.HasPrefix(blk, []byte("goroutine ")) {
			continue
		}
		rest := blk[len("goroutine "):]
		sp := bytes.IndexByte(rest, ' ')
		if sp < 0 {
			continue
		}
		id, err := strconv.ParseInt(string(rest[:sp]), 10, 64)
		if err != nil {
			continue
		}
		st := ""
		if lb := bytes.IndexByte(rest, '['); lb >= 0 {
			if rb := bytes.IndexByte(rest[lb:], ']'); rb >= 0 {
				st = string(rest[lb+1 : lb+rb])
			}
		}
		out = append(out, c09G{id: id, state: st, light: bytes.Contains(blk, c09LightMark)})
	}
	return out
}

func c09Pace(i int) {
	if i < 100 {
		runtime.Gosched()
	} else if i < 2000 {
		time.Sleep(20 * time.Microsecond)
	} else {
		time.Sleep(500 * time.Microsecond)
	}
}

const c09WaitLimit = 40 * time.Second

// runCall executes one API call on its own goroutine and lets witness replies through one at a time
// in rank order. conclusive=false: a wait timed out (the trace is abandoned and reported as a cap).
func (s *c09Sched) runCall(f func(ctx context.Context) error) (err error, conclusive bool, why string) {
	ctx, cancel := context.WithCancel(context.Background())
	defer cancel()
	s.mu.Lock()
	s.callNo++
	s.done = false
	s.gid = -1
	s.roundOpen = false
	s.roundProvs = map[int]bool{}
	s.mu.Unlock()
	var callErr error
	ready := make(chan struct{})
	go func() {
		s.mu.Lock()
		s.gid = c09Goid()
		s.mu.Unlock()
		close(ready)
		defer func() {
			if x := recover(); x != nil {
				callErr = fmt.Errorf("c09-panic: %v", x)
			}
			s.mu.Lock()
			s.done = true
			s.mu.Unlock()
		}()
		callErr = f(ctx)
	}()
	<-ready
	conclusive = true
	last := time.Now()
	for i := 0; ; i++ {
		s.mu.Lock()
		done := s.done
		s.mu.Unlock()
		if done {
			break
		}
		if s.step() {
			last = time.Now()
			i = 0
			continue
		}
		if i%64 == 63 && time.Since(last) > c09WaitLimit {
			conclusive, why = false, "collector did not become ready for the next reply"
			break
		}
		c09Pace(i)
	}
	cancel()
	// the cancelled fan-out goroutines leave their gates by themselves; wait for that (a condition on our own
	// bookkeeping, no stack dumps) and, when the call finished, for nothing else: goroutines still delivering a
	// reply are waited for by step() of the next call, and a new trace starts from a fresh baseline.
	start := time.Now()
	for i := 0; ; i++ {
		s.mu.Lock()
		n := len(s.pending)
		s.mu.Unlock()
		if n == 0 {
			break
		}
		if i%64 == 63 && time.Since(start) > c09WaitLimit {
			return callErr, false, "cancelled witness requests did not return"
		}
		c09Pace(i)
	}
	if !conclusive {
		s.mu.Lock()
		s.base[s.gid] = true // the call goroutine is parked for ever: written off
		s.mu.Unlock()
	}
	return callErr, conclusive, why
}

// step: if the system is quiescent and a reply is waiting, let the next one (by rank) through.
func (s *c09Sched) step() bool {
	s.mu.Lock()
	defer s.mu.Unlock()
	if s.done || len(s.pending) == 0 {
		return false
	}
	gOK := false
	for _, g := range s.snapshot() {
		if g.id == s.gid {
			gOK = strings.HasPrefix(g.state, "chan receive")
			continue
		}
		if g.id == s.ctl || s.base[g.id] || !g.light {
			continue
		}
		if _, parked := s.pending[g.id]; !parked {
			if cn, was := s.relCall[g.id]; was && cn < s.callNo && strings.HasPrefix(g.state, "chan send") {
				continue // left over from an earlier call: parked for ever in a send to a collector that has returned
			}
			return false // somebody is still on its way to a gate, or still delivering a released reply
		}
	}
	if !gOK {
		return false
	}
	var best *c09Pend
	for _, p := range s.pending {
		if best == nil || s.rank[p.prov] < s.rank[best.prov] {
			best = p
		}
	}
	delete(s.pending, best.goid)
	s.released[best.goid] = true
	s.relCall[best.goid] = s.callNo
	s.decisions = append(s.decisions, best.prov)
	if len(s.pending) == 0 {
		s.roundOpen = false
	}
	close(best.gate)
	return true
}

// ---------------------------------------------------------------------------------------------
// one trace

type c09CEnv struct {
	*c09Env
	worlds map[string]*c09World
	states map[string]struct{}
}

func (e *c09CEnv) worldOf(c c09CCase) *c09World {
	k := fmt.Sprintf("%d/%d/%d/%d/%d", c.Pattern, c.Profile, c.H, c.Root, c.From)
	if w, ok := e.worlds[k]; ok {
		return w
	}
	w := e.world(c.Pattern, c.Profile, c.H, c.From-1)
	w.Root = c.Root
	e.worlds[k] = w
	return w
}

type c09TraceResult struct {
	Key, What  string
	Outcome    string
	Conclusive bool
	Why        string
	Depth      int
	Calls      int
	StateKeys  []string
	Polls      int64
	Backward   int
	Sched      []int // provider numbers in the order their replies were let through
}

func c09ErrClass(err error) string {
	switch {
	case err == nil:
		return "ok"
	case errors.Is(err, ErrLightClientAttack):
		return "attack-detected"
	case errors.Is(err, ErrFailedHeaderCrossReferencing):
		return "no-witness-confirmed"
	case errors.Is(err, ErrNoWitnesses):
		return "no-witnesses-left"
	case errors.Is(err, provider.ErrNoResponse), errors.Is(err, provider.ErrLightBlockNotFound), errors.Is(err, provider.ErrHeightTooHigh):
		return "primary-unavailable"
	}
	var ev ErrVerificationFailed
	if errors.As(err, &ev) {
		return "verification-failed"
	}
	var ec errConflictingHeaders
	if errors.As(err, &ec) {
		return "conflicting-first-header"
	}
	if strings.HasPrefix(err.Error(), "c09-panic") {
		return "panic"
	}
	return "other-error"
}

func (e *c09CEnv) dumpStore(c *Client, H int) map[int64]*types.LightBlock {
	out := map[int64]*types.LightBlock{}
	for h := int64(1); h <= int64(H); h++ {
		if lb, err := c.trustedStore.LightBlock(h); err == nil && lb != nil {
			out[h] = lb
		}
	}
	return out
}

func (e *c09CEnv) runTrace(cs c09CCase) (res c09TraceResult) {
	res.Conclusive = true
	w := e.worldOf(cs)
	s := &c09Sched{pending: map[int64]*c09Pend{}, released: map[int64]bool{}, relCall: map[int64]int{}, rank: map[int]int{}, base: map[int64]bool{},
		buf: make([]byte, 256<<10), ctl: c09Goid()}
	s.mu.Lock()
	for _, g := range s.snapshot() {
		s.base[g.id] = true
	}
	s.mu.Unlock()
	provs := []*c09Prov{{id: 0, kind: cs.Primary, w: w, from: cs.From, s: s}}
	for i, k := range cs.Wit {
		provs = append(provs, &c09Prov{id: i + 1, kind: k, w: w, from: cs.From, s: s})
	}
	for i, id := range cs.Order {
		s.rank[id] = i
	}
	s.rank[0] = len(cs.Order) + 1
	witnesses := make([]provider.Provider, 0, len(cs.Wit))
	for _, p := range provs[1:] {
		witnesses = append(witnesses, p)
	}
	now := e.t0.Add(time.Hour)
	period := 100000 * time.Hour
	drift := time.Millisecond
	params := c09Params{Period: period, Now: now, Drift: drift, Num: cs.Num, Den: cs.Den}
	opts := []Option{MaxClockDrift(drift), MaxBlockLag(time.Millisecond)}
	if cs.Mode == 1 {
		opts = append(opts, SequentialVerification())
		params.Num, params.Den = 1, 3 // not used by adjacent steps; the relation still offers the alternative at the weakest level
	} else {
		opts = append(opts, SkippingVerification(tmmath.Fraction{Numerator: cs.Num, Denominator: cs.Den}))
	}
	rootD := w.Blocks[c09FamHonest][cs.Root]
	store := dbs.New(dbm.NewMemDB(), "c09")
	if cs.Init == 1 {
		if err := store.SaveLightBlock(rootD.LB); err != nil {
			panic(err)
		}
	}
	var cl *Client
	err, ok, why := s.runCall(func(ctx context.Context) error {
		var err error
		cl, err = NewClient(ctx, c09ChainID, TrustOptions{Period: period, Height: cs.Root, Hash: rootD.LB.Hash()}, provs[0], witnesses, store, opts...)
		return err
	})
	res.Calls++
	if !ok {
		res.Conclusive, res.Why = false, "NewClient: "+why
		return
	}
	res.Outcome = "init:" + c09ErrClass(err)
	if err != nil || cl == nil {
		// nothing may be trusted
		for h := int64(1); h <= int64(w.H); h++ {
			if lb, e2 := store.LightBlock(h); e2 == nil && lb != nil && !(cs.Init == 1 && h == cs.Root) {
				res.Key = "light/client.go:NewClient:stores-a-header-although-initialisation-failed"
				res.What = fmt.Sprintf("NewClient returned %v but height %d is in the trusted store", err, h)
			}
		}
		res.Depth = res.Calls + len(s.decisions)
		return
	}
	st := e.dumpStore(cl, w.H)
	if len(st) != 1 || st[cs.Root] == nil || !bytes.Equal(st[cs.Root].Hash(), rootD.LB.Hash()) {
		res.Key = "light/client.go:NewClient:trust-root-is-not-the-configured-hash"
		res.What = fmt.Sprintf("after NewClient the store holds %d blocks; root %d hash mismatch or missing", len(st), cs.Root)
		return
	}
	res.StateKeys = append(res.StateKeys, e.stateKey(cl, st, provs))
	for ci, target := range cs.Calls {
		before := st
		servedFrom := len(s.served)
		evFrom := len(s.evidence)
		var got *types.LightBlock
		name := fmt.Sprintf("VerifyLightBlockAtHeight(%d)", target)
		if target == 0 {
			name = "Update"
		}
		err, ok, why = s.runCall(func(ctx context.Context) error {
			var err error
			if target == 0 {
				got, err = cl.Update(ctx, now)
			} else {
				got, err = cl.VerifyLightBlockAtHeight(ctx, target, now)
			}
			return err
		})
		_ = got
		res.Calls++
		if !ok {
			res.Conclusive, res.Why = false, name+": "+why
			return
		}
		res.Outcome += fmt.Sprintf("|%s:%s", c09Mode(target), c09ErrClass(err))
		if err != nil && os.Getenv("C09_DEBUG") != "" {
			res.Outcome += "{" + err.Error() + "}"
		}
		st = e.dumpStore(cl, w.H)
		if k, what := e.judge(cs, w, s, cl, provs, params, before, st, err, servedFrom, evFrom, name, &res); k != "" {
			res.Key, res.What = k, fmt.Sprintf("call %d %s: %s", ci+1, name, what)
			break
		}
		res.StateKeys = append(res.StateKeys, e.stateKey(cl, st, provs))
	}
	res.Depth = res.Calls + len(s.decisions)
	res.Polls = s.polls
	res.Sched = append([]int{}, s.decisions...)
	return
}

func c09Mode(target int64) string {
	if target == 0 {
		return "update"
	}
	return "verify"
}

// stateKey: what determines the futures of a client: the trusted store, who is primary, the witness list
// in order (removal swaps by index), and the only stateful provider flag.
func (e *c09CEnv) stateKey(cl *Client, st map[int64]*types.LightBlock, provs []*c09Prov) string {
	var b strings.Builder
	hs := []int64{}
	for h := range st {
		hs = append(hs, h)
	}
	sort.Slice(hs, func(i, j int) bool { return hs[i] < hs[j] })
	for _, h := range hs {
		lbl := "?"
		if d := e.descOf(st[h]); d != nil {
			lbl = d.Label
		}
		fmt.Fprintf(&b, "%s;", lbl)
	}
	b.WriteString("|P")
	if p, ok := cl.primary.(*c09Prov); ok {
		fmt.Fprintf(&b, "%d:%d", p.id, p.kind)
	}
	b.WriteString("|W")
	for _, wi := range cl.witnesses {
		if p, ok := wi.(*c09Prov); ok {
			fmt.Fprintf(&b, "%d:%d:%v,", p.id, p.kind, p.tooHighSeen)
		}
	}
	return b.String()
}

// adjacentValid: the provider holds blocks at every height lo..hi and each adjacent step of its own chain
// satisfies the reference relation, so that any bisection over its chain succeeds.
func c09AdjacentValid(p *c09Prov, lo, hi int64, params c09Params) bool {
	if !p.pureView() {
		return false
	}
	for h := lo; h < hi; h++ {
		a, b := p.view(h), p.view(h+1)
		if a == nil || b == nil {
			return false
		}
		// the code takes an adjacent step only on the next-validators hash (stricter than the statement's alternative)
		if ok, why := c09RefStep(a, a.Vals, b, params); !ok || why != "adjacent" {
			return false
		}
	}
	return p.view(lo) != nil
}

func (e *c09CEnv) judge(cs c09CCase, w *c09World, s *c09Sched, cl *Client, provs []*c09Prov, params c09Params,
	before, after map[int64]*types.LightBlock, callErr error, servedFrom, evFrom int, name string, res *c09TraceResult) (string, string) {

	s.mu.Lock()
	served := append([]c09Served{}, s.served...)
	evs := append([]c09Ev{}, s.evidence[evFrom:]...)
	lastRound := s.round
	lastRoundProvs := map[int]bool{}
	for k := range s.roundProvs {
		lastRoundProvs[k] = true
	}
	s.mu.Unlock()
	site := "light/client.go:verifySequential"
	if cs.Mode == 2 {
		site = "light/client.go:verifySkipping"
	}

	// everything that was in the store stays what it was (a trusted header is never silently replaced)
	minBefore, maxBefore := int64(1<<62), int64(0)
	var fromDescs []*c09Desc
	for h, lb := range before {
		if h < minBefore {
			minBefore = h
		}
		if h > maxBefore {
			maxBefore = h
		}
		d := e.descOf(lb)
		if d == nil {
			return "c09-harness:unknown-block-in-store", "a previously stored block is not in the registry"
		}
		fromDescs = append(fromDescs, d)
		if a, ok := after[h]; ok && !bytes.Equal(a.Hash(), lb.Hash()) {
			return site + ":trusted-header-replaced", fmt.Sprintf("height %d changed from %s to another header", h, d.Label)
		}
	}
	pool := []*c09Desc{}
	seen := map[*c09Desc]bool{}
	for _, sv := range served {
		if sv.D != nil && !seen[sv.D] {
			seen[sv.D] = true
			pool = append(pool, sv.D)
		}
	}
	var newFwd *c09Desc
	for h, lb := range after {
		if _, had := before[h]; had {
			continue
		}
		d := e.descOf(lb)
		if d == nil || !seen[d] {
			return site + ":stored-header-nobody-served", fmt.Sprintf("height %d holds a block that no provider served", h)
		}
		if h < minBefore {
			// backward verification: a hash chain, not the step relation of the statement. Judged only by hash linkage.
			res.Outcome += "(backward)"
			res.Backward++
			cur := e.descOf(before[minBefore])
			linked := false
			for cur != nil && cur.Height > h {
				var nxt *c09Desc
				for _, cand := range pool {
					if cand.Height == cur.Height-1 && bytes.Equal(cand.LB.Hash(), cur.PrevHash) {
						nxt = cand
					}
				}
				cur = nxt
				if cur != nil && cur == d {
					linked = true
				}
			}
			if !linked {
				return "light/client.go:backwards:stored-header-not-hash-linked", fmt.Sprintf("height %d (%s) is not reachable through LastBlockID from the first trusted header", h, d.Label)
			}
			continue
		}
		// forward: derivable by the step relation from what was trusted, through blocks providers really served
		if !c09Derivable(fromDescs, pool, d, params) {
			return site + ":stored-header-not-derivable", fmt.Sprintf("height %d now holds %s, which no chain of valid steps reaches from the trusted headers", h, d.Label)
		}
		newFwd = d
		// at least one witness returned the identical header during this call
		confirmed := false
		conflictingReply := false
		// ... a witness, that is: a provider other than the one(s) that supplied this header in the primary's role during this call
		// (a provider that confirms its own header confirms nothing)
		suppliers := map[int]bool{}
		for _, sv := range served[servedFrom:] {
			if !sv.Async && sv.D == d {
				suppliers[sv.Prov] = true
			}
		}
		for _, sv := range served[servedFrom:] {
			if !sv.Async || sv.D == nil {
				continue
			}
			if sv.Height == d.Height || sv.Height == 0 {
				if sv.D == d && !suppliers[sv.Prov] {
					confirmed = true
				} else if sv.D == d {
					res.Outcome += "(supplier-asked-to-confirm-its-own-header)"
				} else if sv.D.Height == d.Height {
					conflictingReply = true
				}
			}
		}
		if !confirmed {
			pendingLeft := 0
			for id := range lastRoundProvs {
				asked := false
				for _, sv := range served[servedFrom:] {
					if sv.Async && sv.Prov == id && sv.Round == lastRound {
						asked = true
					}
				}
				if !asked {
					pendingLeft++
				}
			}
			key := "light/detector.go:detectDivergence:stored-without-witness-confirmation"
			if conflictingReply && pendingLeft > 0 {
				// the input class of the known hypothesis: a conflicting reply was processed, the header was then
				// accepted while other witnesses had not answered yet
				key = "light/detector.go:compareNewHeaderWithWitness:conflicting-reply-also-counted-as-match:stored-without-witness-confirmation"
			}
			return key, fmt.Sprintf("%s stored at height %d but no witness returned this header in this call (witness replies let through: %v; %d witness(es) not yet heard; conflicting reply seen: %v)",
				d.Label, h, s.decisions, pendingLeft, conflictingReply)
		}
	}

	// a witness that can back a different header => attack error (+ evidence to both sides)
	if newFwd != nil && callErr == nil {
		var common *c09Desc
		for _, d := range fromDescs {
			if d.Height < newFwd.Height && (common == nil || d.Height > common.Height) {
				common = d
			}
		}
		ids := []int{}
		for id := range lastRoundProvs {
			ids = append(ids, id)
		}
		sort.Ints(ids)
		for _, id := range ids {
			p := provs[id]
			alt := p.view(newFwd.Height)
			if common == nil || alt == nil || alt == newFwd || p.view(common.Height) != common {
				continue
			}
			if !c09AdjacentValid(p, common.Height, newFwd.Height, params) {
				if alt.WellFormed {
					res.Outcome += "(unbackable-conflict-dropped)"
				}
				continue
			}
			heard := false
			for _, sv := range served[servedFrom:] {
				if sv.Async && sv.Prov == id && sv.Round == lastRound {
					heard = true
				}
			}
			key := "light/detector.go:detectDivergence:verifiable-conflicting-witness-no-attack-error"
			if !heard {
				key = "light/detector.go:detectDivergence:header-accepted-before-all-witnesses-answered:verifiable-conflict-missed"
				for _, sv := range served[servedFrom:] {
					if sv.Async && sv.Prov != id && sv.Round == lastRound && sv.D != nil && sv.D != newFwd && sv.D.Height == newFwd.Height {
						// input class of the known hypothesis: another witness's conflicting reply was processed before
						key = "light/detector.go:compareNewHeaderWithWitness:conflicting-reply-also-counted-as-match:verifiable-conflict-of-later-witness-missed"
						break
					}
				}
			}
			return key, fmt.Sprintf("%s stored at height %d and the call succeeded, although witness #%d (%s) holds %s with a fully verifiable chain from the common header at %d (its reply was let through: %v; order %v)",
				newFwd.Label, newFwd.Height, id, c09KindNames[p.kind], alt.Label, common.Height, heard, s.decisions)
		}
	}
	if errors.Is(callErr, ErrLightClientAttack) {
		prim, _ := cl.primary.(*c09Prov)
		servedBy := func(id int, d *c09Desc) bool {
			for _, sv := range served {
				if sv.Prov == id && sv.D == d {
					return true
				}
			}
			return false
		}
		toWitness, toPrimary := false, false
		supporter := -1
		for _, ev := range evs {
			cd := e.descOf(ev.Ev.ConflictingBlock)
			if prim != nil && ev.Prov != prim.id && cd != nil && servedBy(prim.id, cd) {
				toWitness = true
				supporter = ev.Prov
			}
		}
		for _, ev := range evs {
			cd := e.descOf(ev.Ev.ConflictingBlock)
			if prim != nil && ev.Prov == prim.id && cd != nil && supporter >= 0 && servedBy(supporter, cd) {
				toPrimary = true
			}
		}
		if !toWitness {
			return "light/detector.go:handleConflictingHeaders:attack-error-without-evidence-to-witness",
				fmt.Sprintf("ErrLightClientAttack returned but no witness received evidence holding a block the primary served (%d evidence reports)", len(evs))
		}
		if !toPrimary {
			maxH := int64(w.H)
			if prim != nil && c09AdjacentValid(prim, cs.Root, maxH, params) {
				return "light/detector.go:handleConflictingHeaders:attack-error-without-evidence-to-primary",
					fmt.Sprintf("ErrLightClientAttack returned, witness #%d got evidence, but the primary (%s, fully verifiable chain) received none holding the witness's block", supporter, c09KindNames[prim.kind])
			}
			res.Outcome += "(one-sided-evidence:primary-cannot-back-trace)"
		}
	}
	return "", ""
}

// ---------------------------------------------------------------------------------------------
// enumeration

func c09Perms(n int) [][]int {
	if n == 1 {
		return [][]int{{1}}
	}
	out := [][]int{}
	var rec func(cur []int, used []bool)
	rec = func(cur []int, used []bool) {
		if len(cur) == n {
			out = append(out, append([]int{}, cur...))
			return
		}
		for i := 1; i <= n; i++ {
			if !used[i] {
				used[i] = true
				rec(append(cur, i), used)
				used[i] = false
			}
		}
	}
	rec(nil, make([]bool, n+1))
	return out
}

func c09Tuples(menu []int, n int, multiset bool) [][]int {
	out := [][]int{}
	var rec func(cur []int, start int)
	rec = func(cur []int, start int) {
		if len(cur) == n {
			t := make([]int, n)
			for i, j := range cur {
				t[i] = menu[j]
			}
			out = append(out, t)
			return
		}
		from := 0
		if multiset {
			from = start
		}
		for j := from; j < len(menu); j++ {
			rec(append(cur, j), j)
		}
	}
	rec(nil, 0)
	return out
}

func c09DescribeC(c c09CCase) map[string]interface{} {
	ws := []string{}
	for _, k := range c.Wit {
		ws = append(ws, c09KindNames[k])
	}
	mode := "sequential"
	if c.Mode == 2 {
		mode = fmt.Sprintf("skipping %d/%d", c.Num, c.Den)
	}
	return map[string]interface{}{"churn": c09PatternName(c.Pattern), "mode": mode, "primary": c09KindNames[c.Primary], "witnesses": ws, "case": c}
}

func TestVerifC09Client(t *testing.T) {
	r := vr.Start("C09", "client", 105*time.Second, 19*time.Minute)
	defer r.Finish()
	r.Rule = "odometer over (churn pattern, verification mode and trust level, primary behaviour, 1..3 witness behaviours, every permutation of the witness reply order, API call sequence after NewClient); " +
		"a state is the path that reaches it (fresh client, providers and MemDB per trace), deduplicated on (trusted store contents, primary, ordered witness list, provider flags); " +
		"non-trivial = some provider is not honest or more than one witness reply order exists"
	r.Assume("goroutine states are read from runtime.Stack; a reply counts as consumed when the call goroutine is parked in a channel receive and every other goroutine with light-package frames is parked at a gate")
	r.Assume("one reply-order permutation is used for all fan-out rounds of a trace; a primary demoted to witness replies last")
	r.Assume("trusting period 100000h and fixed `now` one hour after the chain start: expiry never depends on the wall clock (expiry is covered by the verifier part)")
	e := &c09CEnv{c09Env: newC09Env(), worlds: map[string]*c09World{}, states: map[string]struct{}{}}
	var lastRes c09TraceResult
	runOne := func(c c09CCase, count bool) (string, string, bool) {
		res := e.runTrace(c)
		lastRes = res
		if !res.Conclusive {
			r.Cap("trace abandoned, scheduler wait timed out: " + res.Why)
			r.Add("inconclusive_traces", 1)
			return "", "", false
		}
		if count {
			r.Traces++
			r.Transitions += int64(res.Calls)
			if res.Depth > r.MaxDepth {
				r.MaxDepth = res.Depth
			}
			for _, k := range res.StateKeys {
				if _, ok := e.states[k]; !ok {
					e.states[k] = struct{}{}
					r.States++
				}
			}
			r.Outcome(res.Outcome)
			r.Add("stack_polls", res.Polls)
			if res.Backward > 0 {
				r.Add("diag_backward_verified_header_stored_without_witness_cross_check", int64(res.Backward))
			}
			if n := strings.Count(res.Outcome, "(unbackable-conflict-dropped)"); n > 0 {
				r.Add("diag_conflicting_witness_without_stepwise_verifiable_chain_dropped_silently", int64(n))
			}
			if strings.Contains(res.Outcome, "(one-sided-evidence") {
				r.Add("diag_attack_error_with_evidence_to_witness_only", 1)
			}
		}
		return res.Key, res.What, true
	}
	var rc c09CCase
	if rep, skip := r.ReplayCase(&rc); skip {
		return
	} else if rep {
		r.Eval()
		if k, w, _ := runOne(rc, true); k != "" {
			r.Violation(k, w, rc)
		}
		if os.Getenv("C09_DEBUG") != "" {
			r.Cap(fmt.Sprintf("debug: outcome=%s sched=%v calls=%d", lastRes.Outcome, lastRes.Sched, lastRes.Calls))
		}
		return
	}
	k, mine := 0, 0
	stop := false
	confirmed := map[string]int{}
	try := func(c c09CCase) {
		if stop {
			return
		}
		k++
		if !r.Mine(k) {
			return
		}
		mine++
		if mine%8 == 0 && r.Deadline("C09 client traces") {
			stop = true
			return
		}
		r.Eval()
		triv := c.Primary == c09KHonest && len(c.Wit) == 1 && c.Wit[0] == c09KHonest
		if !triv {
			r.NTCount(1)
		}
		key, what, ok := runOne(c, true)
		if ok && key != "" {
			first := fmt.Errorf("%s", key)
			confirmed[key]++
			if confirmed[key] > 3 {
				r.Violation(key, what, c) // same failure class already reproduced 3x3 times: count it
				return
			}
			if !vr.Confirm(3, first, func() error {
				k2, _, ok2 := runOne(c, false)
				if !ok2 {
					return fmt.Errorf("inconclusive")
				}
				if k2 == "" {
					return nil
				}
				return fmt.Errorf("%s", k2)
			}) {
				r.Cap("a failing trace did not reproduce identically 3 times; not reported as a violation: " + key)
				r.Add("unstable_failures", 1)
				return
			}
			r.Violation(key, what, c)
		}
		if k%9973 == 5 {
			r.Sample(c09DescribeC(c))
		}
		if ok && mine%40 == 1 {
			// self-check: the same case must give the same schedule, the same outcome and the same states again
			a := lastRes
			if _, _, ok2 := runOne(c, false); ok2 {
				b := lastRes
				r.Add("selfcheck_reruns", 1)
				if a.Outcome != b.Outcome || a.Key != b.Key || fmt.Sprint(a.Sched) != fmt.Sprint(b.Sched) || fmt.Sprint(a.StateKeys) != fmt.Sprint(b.StateKeys) {
					r.Add("selfcheck_mismatches", 1)
					r.Cap(fmt.Sprintf("self-check: a trace did not repeat identically (%v: %s %v vs %s %v)", c, a.Outcome, a.Sched, b.Outcome, b.Sched))
				}
			}
		}
	}

	thorough := vr.Thorough()
	H := vr.Pick(4, 5)
	patterns := []int{0, 1, 2}
	if thorough {
		patterns = []int{0, 1, 2, 3, 5}
	}
	type modeT struct {
		m        int
		num, den uint64
	}
	modes := []modeT{{1, 1, 3}, {2, 1, 3}}
	if thorough {
		modes = append(modes, modeT{2, 2, 3})
	}
	primaries := []int{c09KHonest, c09KEquiv, c09KLunatic, c09KGarbage, c09KEquivPivot, c09KGarbagePivot, c09KNotFound, c09KTooHighBehind, c09KBadBlock, c09KGarbageTopGap, c09KEquivTopGarbagePivot}
	witMenu3 := []int{c09KHonest, c09KEquiv, c09KGarbage, c09KNoResponse, c09KNotFound, c09KTooHighCatch, c09KBadBlock}
	witMenu := append(append([]int{}, witMenu3...), c09KTooHighBehind, c09KTooHighFork, c09KTooHighCatchLate, c09KTooHighForkLate)
	if thorough {
		witMenu = append(witMenu, c09KLunatic, c09KWeak, c09KOtherError)
	}
	root := int64(1)
	callSeqs := [][]int64{}
	for h := root + 1; h <= int64(H); h++ {
		callSeqs = append(callSeqs, []int64{h})
	}
	callSeqs = append(callSeqs, []int64{0})
	twoCall := [][]int64{{int64(H), 2}, {2, 0}, {3, int64(H)}}
	for n := 1; n <= 3 && !stop; n++ {
		menu := witMenu
		if n == 3 {
			menu = witMenu3
		}
		tuples := c09Tuples(menu, n, n == 3 && !thorough)
		perms := c09Perms(n)
		for _, pat := range patterns {
			for _, md := range modes {
				for _, pk := range primaries {
					for _, wt := range tuples {
						for _, pm := range perms {
							seqs := callSeqs
							if n <= 2 {
								seqs = append(append([][]int64{}, callSeqs...), twoCall...)
							} else if !thorough {
								seqs = [][]int64{{root + 1}, {int64(H)}} // adjacent target and the farthest one
							}
							for _, calls := range seqs {
								try(c09CCase{Pattern: pat, H: H, Root: root, From: root + 1, Mode: md.m, Num: md.num, Den: md.den,
									Primary: pk, Wit: wt, Order: pm, Calls: calls, Init: 1})
							}
						}
					}
				}
			}
		}
	}
	// backward verification below a root that is already in the store, from providers that lie at every height (their
	// forged families start at height 1): the walk down from the root meets a header that is not hash-linked, the
	// primary is replaced by a witness, and whatever ends up in the store must be hash-linked to the root.
	for _, pat := range []int{0, 1} {
		for _, pk := range []int{c09KEquiv, c09KGarbage, c09KLunatic, c09KWeak, c09KNotFound, c09KBadBlock} {
			for n := 1; n <= 3 && !stop; n++ {
				for _, wt := range c09Tuples(witMenu3, n, n == 3) {
					for _, pm := range c09Perms(n) {
						for _, calls := range [][]int64{{1}, {2}, {2, 1}, {1, 2}} {
							try(c09CCase{Pattern: pat, H: H, Root: 3, From: 1, Mode: modes[0].m, Num: modes[0].num, Den: modes[0].den,
								Primary: pk, Wit: wt, Order: pm, Calls: calls, Init: 1})
						}
					}
				}
			}
		}
	}
	// NewClient over the network (root fetched from the primary and cross-checked), including providers that
	// already misbehave at the root height, and backward verification below the root.
	for n := 1; n <= 2 && !stop; n++ {
		for _, pat := range []int{0, 1} {
			for _, md := range modes[:2] {
				for _, pk := range []int{c09KHonest, c09KEquiv, c09KGarbage, c09KNotFound, c09KBadBlock} {
					for _, wt := range c09Tuples(witMenu3, n, false) {
						for _, pm := range c09Perms(n) {
							for _, from := range []int64{2, 3} {
								for _, calls := range [][]int64{{int64(H)}, {0}, {1}, {3, 1}} {
									try(c09CCase{Pattern: pat, H: H, Root: 2, From: from, Mode: md.m, Num: md.num, Den: md.den,
										Primary: pk, Wit: wt, Order: pm, Calls: calls, Init: 0})
								}
							}
						}
					}
				}
			}
		}
	}
	if !stop {
		r.Bound = fmt.Sprintf("%d heights; churn patterns %v; modes %v; %d primary behaviours; %d witness behaviours for 1-2 witnesses (all tuples), %d for 3 witnesses (quick: all multisets, calls to the adjacent and the top height; thorough: all tuples, every height and Update); all reply-order permutations; single calls to every height and Update, %d two-call sequences for <=2 witnesses; network initialisation and backward verification with <=2 witnesses",
			H, patterns, modes, len(primaries), len(witMenu), len(witMenu3), len(twoCall))
	}
}
