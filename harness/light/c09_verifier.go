package light

// C09 part "verifier" — exhaustive sweep of light.VerifyAdjacent / VerifyNonAdjacent / Verify over
// generated chains with validator churn, forged headers signed by every subset of the forged set,
// field perturbations and trust levels, judged by the big-int reference step relation of c09_model.go.
// Oracle (soundness, which is what the statement says): a function accepts  =>  the reference step holds.

import (
	"fmt"
	"testing"
	"time"

	"github.com/tendermint/tendermint/internal/verif/vr"
	tmmath "github.com/tendermint/tendermint/libs/math"
)

const (
	c09PNone = iota
	c09PTimeEqual
	c09PTimeBefore
	c09PTimeAtDrift
	c09PTimeJustInsideDrift
	c09PChainID
	c09PValsHash
	c09PExpiredExactly
	c09PAlmostExpired
	c09PCommitHeight
	c09PCommitHash
	c09PVersion
	c09PTimeJustAfter
	c09PLaterTimeLowHeight // only for Y <= X: time is fine, height is not
	c09NPerturb
)

var c09PerturbNames = []string{"none", "time==trusted", "time<trusted", "time==now+drift", "time==now+drift-1ns", "wrong-chain-id",
	"validators-hash-of-other-set", "trusted-expires-exactly-now", "trusted-expires-1ns-after-now", "commit-height+1", "commit-other-block",
	"bad-version", "time==trusted+1ns", "later-time-but-height<=trusted"}

var c09USetNames = []string{"genuine-set", "trusted-set-reused", "attackers-only", "two-trusted-plus-attackers"}

type c09VCase struct {
	Pattern int    `json:"pattern"`
	Profile int    `json:"power_profile"`
	X       int64  `json:"trusted_height"`
	Y       int64  `json:"untrusted_height"`
	USet    int    `json:"untrusted_set"`
	Mask    uint32 `json:"signers_mask"`
	Alt     int    `json:"unsigned_slot_kind"` // 0 absent, 1 nil vote, 2 garbage signature
	Perturb int    `json:"perturb"`
}

type c09VEnv struct {
	*c09Env
	sets   map[int][][]c09Member
	honest map[string]*c09Desc
}

func (e *c09VEnv) setsOf(p, q int) [][]c09Member {
	if s, ok := e.sets[p+100*q]; ok {
		return s
	}
	s := c09Sets(p, 7, q)
	e.sets[p+100*q] = s
	return s
}

func (e *c09VEnv) trusted(p, q int, x int64) *c09Desc {
	k := fmt.Sprintf("%d/%d/%d", p, q, x)
	if d, ok := e.honest[k]; ok {
		return d
	}
	s := e.setsOf(p, q)
	d := e.build(c09Spec{Label: "trusted", Height: x, Time: e.timeAt(x), Vals: s[x], NextVals: s[x+1], App: "honest", Slots: c09AllSign(s[x])})
	e.honest[k] = d
	return d
}

func (e *c09VEnv) uset(c c09VCase) []c09Member {
	s := e.setsOf(c.Pattern, c.Profile)
	switch c.USet {
	case 0:
		return s[c.Y]
	case 1:
		return s[c.X]
	case 2:
		return []c09Member{{c09Attacker, 2}, {c09Attacker + 1, 1}, {c09Attacker + 2, 1}}
	default:
		return []c09Member{s[c.X][0], s[c.X][1], {c09Attacker, 1}, {c09Attacker + 1, 1}}
	}
}

var c09Levels = [][2]uint64{{1, 3}, {1, 2}, {2, 3}, {1, 1}}

// run evaluates one built case against the three functions, both trusted-set choices and all trust levels.
func (e *c09VEnv) run(r *vr.Report, c c09VCase, count bool) (key, what string) {
	s := e.setsOf(c.Pattern, c.Profile)
	t := e.trusted(c.Pattern, c.Profile, c.X)
	now := e.t0.Add(time.Hour)
	period := 1000 * time.Hour
	drift := 10 * time.Second
	us := e.uset(c)
	sp := c09Spec{Label: "untrusted", Height: c.Y, Time: e.timeAt(c.Y), Vals: us, NextVals: s[c.Y+1], App: "u", Slots: map[int]int{}}
	for i, m := range us {
		if c.Mask&(1<<uint(i)) != 0 {
			sp.Slots[m.Key] = c09SlotValid
		} else if c.Alt == 1 {
			sp.Slots[m.Key] = c09SlotNil
		} else if c.Alt == 2 {
			sp.Slots[m.Key] = c09SlotBadSig
		}
	}
	switch c.Perturb {
	case c09PTimeEqual:
		sp.Time = t.Time
	case c09PTimeBefore:
		sp.Time = t.Time.Add(-time.Second)
	case c09PTimeJustAfter:
		sp.Time = t.Time.Add(time.Nanosecond)
	case c09PLaterTimeLowHeight:
		sp.Time = t.Time.Add(30 * time.Second)
	case c09PTimeAtDrift:
		sp.Time = now.Add(drift)
	case c09PTimeJustInsideDrift:
		sp.Time = now.Add(drift - time.Nanosecond)
	case c09PChainID:
		sp.ChainID = c09OtherChain
	case c09PValsHash:
		sp.HeaderVals = []c09Member{{c09Attacker + 5, 1}}
	case c09PExpiredExactly:
		period = 2 * time.Hour
		now = t.Time.Add(period)
	case c09PAlmostExpired:
		period = 2 * time.Hour
		now = t.Time.Add(period - time.Nanosecond)
	case c09PCommitHeight:
		sp.CommitDH = 1
	case c09PCommitHash:
		sp.CommitOther = true
	case c09PVersion:
		sp.BadVersion = true
	}
	u := e.build(sp)
	for tv := 0; tv < 2; tv++ {
		tVals := s[c.X]
		if tv == 1 {
			tVals = s[c.X+1]
		}
		tvs := e.valset(tVals)
		for _, lv := range c09Levels {
			p := c09Params{Period: period, Now: now, Drift: drift, Num: lv[0], Den: lv[1]}
			ref, why := c09RefStep(t, tVals, u, p)
			lvl := tmmath.Fraction{Numerator: lv[0], Denominator: lv[1]}
			adjacent := c.Y == c.X+1
			for fn := 0; fn < 3; fn++ {
				if fn == 0 && tv == 1 {
					continue // VerifyAdjacent takes no trusted set: evaluated once per level below would be identical
				}
				var err error
				name := ""
				switch fn {
				case 0:
					name = "VerifyAdjacent"
					if lv != c09Levels[0] {
						continue // no trust level either
					}
					err = VerifyAdjacent(t.LB.SignedHeader, u.LB.SignedHeader, u.LB.ValidatorSet, period, now, drift)
				case 1:
					name = "VerifyNonAdjacent"
					err = VerifyNonAdjacent(t.LB.SignedHeader, tvs, u.LB.SignedHeader, u.LB.ValidatorSet, period, now, drift, lvl)
				case 2:
					name = "Verify"
					err = Verify(t.LB.SignedHeader, tvs, u.LB.SignedHeader, u.LB.ValidatorSet, period, now, drift, lvl)
				}
				if count {
					r.Eval()
				}
				refHere, whyHere := ref, why
				if fn == 0 {
					// VerifyAdjacent has no trusting alternative: judged against the relation at the weakest level
					refHere, whyHere = c09RefStep(t, tVals, u, c09Params{Period: period, Now: now, Drift: drift, Num: 1, Den: 3})
				}
				if err == nil && !refHere {
					return "light/verifier.go:" + name + ":accepts:" + whyHere,
						fmt.Sprintf("%s accepted a step the statement forbids (%s): pattern %s, trusted h=%d, untrusted h=%d set=%s signers=%04b unsigned-slots=%d perturb=%s level=%d/%d trusted-set=%d",
							name, whyHere, c09PatternName(c.Pattern), c.X, c.Y, c09USetNames[c.USet], c.Mask, c.Alt, c09PerturbNames[c.Perturb], lv[0], lv[1], tv)
				}
				if !count {
					continue
				}
				inDomain := fn == 2 || (fn == 0 && adjacent) || (fn == 1 && !adjacent)
				switch {
				case err == nil:
					r.Outcome(name + ":accept:" + whyHere)
				case !refHere:
					r.Outcome(name + ":reject:" + c09Class(whyHere))
				case !inDomain:
					r.Outcome(name + ":reject:outside-domain")
				case whyHere == "trusting-exactly-at-level":
					r.Add("diag_exactly_at_trust_level_rejected", 1) // the code asks for strictly more than the level; the statement says at least
					r.Outcome(name + ":reject:exactly-at-level")
				case adjacent && whyHere != "adjacent":
					r.Add("diag_adjacent_step_trusting_alternative_not_used", 1) // adjacent steps insist on the next-validators hash
					r.Outcome(name + ":reject:adjacent-hash-only")
				case c.Alt == 2:
					r.Add("diag_valid_step_rejected_because_of_a_garbage_slot", 1)
					r.Outcome(name + ":reject:garbage-slot")
				default:
					r.Add("diag_rejects_valid_step", 1)
					r.Note(fmt.Sprintf("completeness diagnostic: %s rejected a reference-valid step (%s): %+v level %d/%d tv=%d: %v", name, whyHere, c, lv[0], lv[1], tv, err))
					r.Outcome(name + ":reject:VALID-STEP")
				}
			}
		}
	}
	return "", ""
}

func c09Class(why string) string {
	if len(why) > 15 && why[:15] == "not-well-formed" {
		return "not-well-formed"
	}
	return why
}

func c09DescribeV(c c09VCase) map[string]interface{} {
	return map[string]interface{}{"pattern": c09PatternName(c.Pattern), "untrusted_set": c09USetNames[c.USet],
		"perturb": c09PerturbNames[c.Perturb], "case": c}
}

func TestVerifC09Verifier(t *testing.T) {
	r := vr.Start("C09", "verifier", 100*time.Second, 18*time.Minute)
	defer r.Finish()
	r.Rule = "odometer over (churn pattern of a 7-height chain, trusted height X, untrusted height Y incl. Y<=X, forged validator set, every subset of that set as signers, " +
		"kind of the unsigned slots, one field perturbation) x {validators(X), validators(X+1)} as trusted set x trust level {1/3,1/2,2/3,1} x {VerifyAdjacent, VerifyNonAdjacent, Verify}; " +
		"tuples are distinct by construction; non-trivial = anything but the genuine, fully signed, unperturbed header"
	r.Assume("ed25519 and header hashing are black boxes; ground truth about every commit slot and every perturbed field is known because the harness built it")
	r.Assume("the reference reads 'at least the trust level' as >= and 'more than two thirds' as >; a header whose validators hash is not the hash of the supplied set counts as not well formed")
	e := &c09VEnv{c09Env: newC09Env(), sets: map[int][][]c09Member{}, honest: map[string]*c09Desc{}}
	e.noReg = true
	var rc c09VCase
	if rep, skip := r.ReplayCase(&rc); skip {
		return
	} else if rep {
		if k, w := e.run(r, rc, true); k != "" {
			r.Violation(k, w, rc)
		}
		return
	}
	maxH := int64(vr.Pick(5, 6))
	k, mine := 0, 0
	stop := false
	try := func(c c09VCase) {
		if stop {
			return
		}
		k++
		if !r.Mine(k) {
			return
		}
		mine++
		if mine%64 == 0 && r.Deadline("C09 verifier sweep") {
			stop = true
			return
		}
		if !(c.USet == 0 && c.Perturb == 0 && c.Alt == 0 && c.Mask == 0xF) {
			r.NTCount(1)
		}
		if key, what := e.run(r, c, true); key != "" {
			first := fmt.Errorf("%s", key)
			if !vr.Confirm(3, first, func() error {
				k2, _ := e.run(r, c, false)
				if k2 == "" {
					return nil
				}
				return fmt.Errorf("%s", k2)
			}) {
				panic("C09 verifier harness nondeterministic on " + fmt.Sprint(c))
			}
			r.Violation(key, what, c)
		}
		if k%40000 == 7 {
			r.Sample(c09DescribeV(c))
		}
	}
	for q := 0; q < len(c09Profiles) && !stop; q++ {
		for p := 0; p < len(c09Patterns) && !stop; p++ {
			for x := int64(1); x <= maxH && !stop; x++ {
				for y := int64(1); y <= maxH && !stop; y++ {
					for us := 0; us < 4; us++ {
						c0 := c09VCase{Pattern: p, Profile: q, X: x, Y: y, USet: us}
						n := len(e.uset(c0))
						if us == 1 && c09SetKey(e.setsOf(p, q)[x]) == c09SetKey(e.setsOf(p, q)[y]) {
							continue // identical to the genuine set
						}
						for pt := 0; pt < c09NPerturb; pt++ {
							if pt == c09PLaterTimeLowHeight && y > x {
								continue
							}
							if y <= x && pt != c09PNone && pt != c09PLaterTimeLowHeight && !vr.Thorough() {
								continue // height is already wrong; one more wrong field adds nothing in the quick tier
							}
							alts := []int{0}
							if pt == c09PNone && y > x {
								alts = []int{0, 1, 2}
							} else if vr.Thorough() {
								alts = []int{0, 2}
							}
							for _, alt := range alts {
								for m := uint32(0); m < 1<<uint(n); m++ {
									c := c0
									c.Perturb, c.Alt, c.Mask = pt, alt, m
									try(c)
								}
							}
						}
					}
				}
			}
		}
	}
	if !stop {
		r.Bound = fmt.Sprintf("2 power profiles (total 6 and 7), 6 churn patterns, trusted and untrusted heights 1..%d (all ordered pairs), 4 forged-set kinds, all signer subsets, 14 perturbations, 3 unsigned-slot kinds, 4 trust levels, both trusted sets, 3 entry points", maxH)
	}
}
