package light

// C09 — shared model for both parts: deterministic key pool, light-block builder that knows by
// construction what every block really is (who signed it, which fields were perturbed), chain
// generators with validator churn, and the reference step relation of the property statement
// (math/big tallies). Nothing here calls light.Verify*; the reference never re-implements crypto.

import (
	"bytes"
	"fmt"
	"math/big"
	"sort"
	"strings"
	"time"

	"github.com/tendermint/tendermint/crypto"
	"github.com/tendermint/tendermint/crypto/ed25519"
	"github.com/tendermint/tendermint/crypto/tmhash"
	tmproto "github.com/tendermint/tendermint/proto/tendermint/types"
	tmversion "github.com/tendermint/tendermint/proto/tendermint/version"
	"github.com/tendermint/tendermint/types"
	"github.com/tendermint/tendermint/version"
)

const (
	c09ChainID    = "verif-c09"
	c09OtherChain = "verif-c09-other"
	c09Attacker   = 900 // key indices >= this are attacker keys that never sat in an honest set
)

// slot kinds of a commit
const (
	c09SlotAbsent = iota
	c09SlotValid
	c09SlotNil    // valid signature over nil
	c09SlotBadSig // flag commit, garbage signature
)

type c09Member struct {
	Key   int   `json:"k"`
	Power int64 `json:"p"`
}

func c09SetKey(ms []c09Member) string {
	s := append([]c09Member{}, ms...)
	sort.Slice(s, func(i, j int) bool { return s[i].Key < s[j].Key })
	var b strings.Builder
	for _, m := range s {
		fmt.Fprintf(&b, "%d:%d,", m.Key, m.Power)
	}
	return b.String()
}

// c09Desc is the ground truth about one light block, known by construction.
type c09Desc struct {
	Label      string
	WellFormed bool // chain id right, version right, commit height/hash consistent with the header, header's validators hash is the hash of the supplied set
	Why        string
	Height     int64
	Time       time.Time
	Vals       []c09Member  // the supplied validator set ("its own validator set")
	ValsKey    string       // canonical identity of Vals
	NextKey    string       // canonical identity of the set whose hash is in NextValidatorsHash
	Signers    map[int]bool // keys whose slot carries a valid for-block precommit over this commit's block id
	LB         *types.LightBlock
	PrevHash   []byte // LastBlockID.Hash
}

func (d *c09Desc) hashKey() string { return c09BlockKey(d.LB) }

func c09BlockKey(lb *types.LightBlock) string {
	return string(lb.SignedHeader.Header.Hash()) + "/" + string(lb.SignedHeader.Commit.Hash())
}

type c09Spec struct {
	Label      string
	ChainID    string // "" = c09ChainID
	Height     int64
	Time       time.Time
	Vals       []c09Member
	HeaderVals []c09Member // set whose hash is written into the header (nil = Vals)
	NextVals   []c09Member
	App        string
	PrevHash   []byte
	Slots      map[int]int // key -> slot kind; missing = absent
	CommitDH   int64       // added to commit.Height
	CommitOther bool       // commit (and the signatures) are for another block hash
	BadVersion bool
}

type c09Env struct {
	keys     map[int]crypto.PrivKey
	sigCache map[string][]byte
	vsCache  map[string]*types.ValidatorSet
	descs    map[string]*c09Desc
	t0       time.Time
	psh      types.PartSetHeader
	garbage  []byte
	noReg    bool // do not keep ground-truth records (input sweep: nothing is looked up later)
}

func newC09Env() *c09Env {
	e := &c09Env{keys: map[int]crypto.PrivKey{}, sigCache: map[string][]byte{}, vsCache: map[string]*types.ValidatorSet{},
		descs: map[string]*c09Desc{}, t0: time.Date(2022, 1, 1, 0, 0, 0, 0, time.UTC)}
	e.psh = types.PartSetHeader{Total: 1, Hash: tmhash.Sum([]byte("verif-c09-parts"))}
	e.garbage = make([]byte, 64)
	for i := range e.garbage {
		e.garbage[i] = byte(i*5 + 1)
	}
	return e
}

func (e *c09Env) key(i int) crypto.PrivKey {
	if k, ok := e.keys[i]; ok {
		return k
	}
	k := ed25519.GenPrivKeyFromSecret([]byte(fmt.Sprintf("verif-c09-key-%d", i)))
	e.keys[i] = k
	return k
}

func (e *c09Env) valset(ms []c09Member) *types.ValidatorSet {
	k := c09SetKey(ms)
	if vs, ok := e.vsCache[k]; ok {
		return vs.Copy()
	}
	vv := make([]*types.Validator, len(ms))
	for i, m := range ms {
		vv[i] = types.NewValidator(e.key(m.Key).PubKey(), m.Power)
	}
	vs := types.NewValidatorSet(vv)
	e.vsCache[k] = vs
	return vs.Copy()
}

func (e *c09Env) sign(key int, chain string, h int64, round int32, bid types.BlockID, ts time.Time, nilVote bool) []byte {
	ck := fmt.Sprintf("%d/%s/%d/%d/%X/%d/%v", key, chain, h, round, bid.Hash, ts.UnixNano(), nilVote)
	if s, ok := e.sigCache[ck]; ok {
		return s
	}
	v := &types.Vote{Type: tmproto.PrecommitType, Height: h, Round: round, Timestamp: ts}
	if !nilVote {
		v.BlockID = bid
	}
	sig, err := e.key(key).Sign(types.VoteSignBytes(chain, v.ToProto()))
	if err != nil {
		panic(err)
	}
	e.sigCache[ck] = sig
	return sig
}

// build makes the real light block for a spec and registers its ground truth.
func (e *c09Env) build(sp c09Spec) *c09Desc {
	chain := sp.ChainID
	if chain == "" {
		chain = c09ChainID
	}
	hv := sp.HeaderVals
	if hv == nil {
		hv = sp.Vals
	}
	vals := e.valset(sp.Vals)
	hdr := &types.Header{
		Version:            tmversion.Consensus{Block: version.BlockProtocol, App: 0},
		ChainID:            chain,
		Height:             sp.Height,
		Time:               sp.Time,
		ValidatorsHash:     e.valset(hv).Hash(),
		NextValidatorsHash: e.valset(sp.NextVals).Hash(),
		ConsensusHash:      tmhash.Sum([]byte("verif-c09-cons")),
		AppHash:            tmhash.Sum([]byte("verif-c09-app-" + sp.App)),
		LastResultsHash:    tmhash.Sum([]byte("verif-c09-res")),
		ProposerAddress:    vals.Validators[0].Address,
	}
	if sp.BadVersion {
		hdr.Version.Block = version.BlockProtocol + 1
	}
	if len(sp.PrevHash) > 0 {
		hdr.LastBlockID = types.BlockID{Hash: sp.PrevHash, PartSetHeader: e.psh}
	}
	bid := types.BlockID{Hash: hdr.Hash(), PartSetHeader: e.psh}
	if sp.CommitOther {
		bid.Hash = tmhash.Sum([]byte("verif-c09-some-other-block"))
	}
	ch := sp.Height + sp.CommitDH
	powerOf := map[string]int{}
	for _, m := range sp.Vals {
		powerOf[string(e.key(m.Key).PubKey().Address())] = m.Key
	}
	sigs := make([]types.CommitSig, vals.Size())
	signers := map[int]bool{}
	for i, v := range vals.Validators {
		k := powerOf[string(v.Address)]
		switch sp.Slots[k] {
		case c09SlotAbsent:
			sigs[i] = types.NewCommitSigAbsent()
		case c09SlotValid:
			sigs[i] = types.CommitSig{BlockIDFlag: types.BlockIDFlagCommit, ValidatorAddress: v.Address, Timestamp: sp.Time,
				Signature: e.sign(k, chain, ch, 1, bid, sp.Time, false)}
			signers[k] = true
		case c09SlotNil:
			sigs[i] = types.CommitSig{BlockIDFlag: types.BlockIDFlagNil, ValidatorAddress: v.Address, Timestamp: sp.Time,
				Signature: e.sign(k, chain, ch, 1, bid, sp.Time, true)}
		case c09SlotBadSig:
			sigs[i] = types.CommitSig{BlockIDFlag: types.BlockIDFlagCommit, ValidatorAddress: v.Address, Timestamp: sp.Time,
				Signature: e.garbage}
		default:
			panic("bad slot kind")
		}
	}
	commit := types.NewCommit(ch, 1, bid, sigs)
	commit.Hash() // fill the lazy cache now: blocks are shared between goroutines later
	lb := &types.LightBlock{SignedHeader: &types.SignedHeader{Header: hdr, Commit: commit}, ValidatorSet: vals}
	d := &c09Desc{Label: sp.Label, Height: sp.Height, Time: sp.Time, Vals: sp.Vals, ValsKey: c09SetKey(sp.Vals),
		NextKey: c09SetKey(sp.NextVals), Signers: signers, LB: lb, PrevHash: sp.PrevHash, WellFormed: true}
	bad := func(w string) { d.WellFormed = false; d.Why += w + ";" }
	if chain != c09ChainID {
		bad("chain-id")
	}
	if sp.BadVersion {
		bad("version")
	}
	if sp.CommitDH != 0 {
		bad("commit-height")
	}
	if sp.CommitOther {
		bad("commit-block-hash")
	}
	if c09SetKey(hv) != d.ValsKey {
		bad("validators-hash")
	}
	if !e.noReg {
		// identical content (same header, same commit) is one block: keep one record so that pointers identify blocks
		if old, ok := e.descs[d.hashKey()]; ok {
			return old
		}
		e.descs[d.hashKey()] = d
	}
	return d
}

func (e *c09Env) descOf(lb *types.LightBlock) *c09Desc {
	if lb == nil || lb.SignedHeader == nil || lb.SignedHeader.Header == nil || lb.SignedHeader.Commit == nil {
		return nil
	}
	return e.descs[c09BlockKey(lb)]
}

// ---------------------------------------------------------------------------------------------
// reference step relation (the property statement, clause by clause)

type c09Params struct {
	Period time.Duration
	Now    time.Time
	Drift  time.Duration
	Num    uint64
	Den    uint64
}

func c09Tally(set []c09Member, signers map[int]bool) (signed, total *big.Int) {
	signed, total = new(big.Int), new(big.Int)
	seen := map[int]bool{}
	for _, m := range set {
		total.Add(total, big.NewInt(m.Power))
		if signers[m.Key] && !seen[m.Key] {
			seen[m.Key] = true
			signed.Add(signed, big.NewInt(m.Power))
		}
	}
	return
}

// c09RefStep: may a client that trusts t (with validator set tVals) come to trust u in one step?
// "each new header is well formed, later in height and time, not from the future, signed by more than
// two thirds of its own validator set, and either adjacent with matching next-validator hash or signed
// by at least the trust level of the previous trusted set, all within the trusting period".
func c09RefStep(t *c09Desc, tVals []c09Member, u *c09Desc, p c09Params) (bool, string) {
	if !u.WellFormed {
		return false, "not-well-formed:" + u.Why
	}
	if u.Height <= t.Height {
		return false, "height-not-later"
	}
	if !u.Time.After(t.Time) {
		return false, "time-not-later"
	}
	if !u.Time.Before(p.Now.Add(p.Drift)) {
		return false, "from-the-future"
	}
	if !t.Time.Add(p.Period).After(p.Now) {
		return false, "outside-trusting-period"
	}
	own, ownTotal := c09Tally(u.Vals, u.Signers)
	// own/ownTotal > 2/3
	if new(big.Int).Mul(own, big.NewInt(3)).Cmp(new(big.Int).Mul(ownTotal, big.NewInt(2))) <= 0 {
		return false, "own-set-not-above-two-thirds"
	}
	if u.Height == t.Height+1 && t.NextKey == u.ValsKey {
		return true, "adjacent"
	}
	if p.Den == 0 {
		return false, "bad-trust-level"
	}
	tr, trTotal := c09Tally(tVals, u.Signers)
	// tr/trTotal >= num/den   ("at least the trust level")
	l := new(big.Int).Mul(tr, new(big.Int).SetUint64(p.Den))
	r := new(big.Int).Mul(trTotal, new(big.Int).SetUint64(p.Num))
	if l.Cmp(r) >= 0 {
		if l.Cmp(r) == 0 {
			return true, "trusting-exactly-at-level"
		}
		return true, "trusting"
	}
	if u.Height == t.Height+1 {
		return false, "adjacent-next-validators-mismatch"
	}
	return false, "below-trust-level"
}

// c09Derivable: is target reachable from one of `from` by reference steps through blocks of `pool`?
func c09Derivable(from []*c09Desc, pool []*c09Desc, target *c09Desc, p c09Params) bool {
	reach := append([]*c09Desc{}, from...)
	in := map[*c09Desc]bool{}
	for _, d := range from {
		in[d] = true
		if d == target {
			return true
		}
	}
	cands := append(append([]*c09Desc{}, pool...), target)
	for changed := true; changed; {
		changed = false
		for _, b := range cands {
			if in[b] {
				continue
			}
			for _, t := range reach {
				if ok, _ := c09RefStep(t, t.Vals, b, p); ok {
					in[b] = true
					reach = append(reach, b)
					changed = true
					if b == target {
						return true
					}
					break
				}
			}
		}
	}
	return in[target]
}

// ---------------------------------------------------------------------------------------------
// chains with validator churn

// churn kinds per step
const (
	c09Stable = iota
	c09Third
	c09Half
	c09TwoThirds
	c09All
)

var c09ChurnNames = []string{"stable", "1/3", "1/2", "2/3", "all"}

var c09Patterns = [][]int{
	{c09Stable, c09Stable, c09Stable, c09Stable, c09Stable},
	{c09Third, c09Third, c09Third, c09Third, c09Third},
	{c09All, c09All, c09All, c09All, c09All},
	{c09Half, c09Half, c09Half, c09Half, c09Half},
	{c09TwoThirds, c09TwoThirds, c09TwoThirds, c09TwoThirds, c09TwoThirds},
	{c09Stable, c09Third, c09Half, c09TwoThirds, c09All},
}

func c09PatternName(p int) string {
	s := []string{}
	for _, c := range c09Patterns[p] {
		s = append(s, c09ChurnNames[c])
	}
	return strings.Join(s, ",")
}

// power profiles of the four validators: total 6 makes 1/3, 1/2 and 2/3 reachable exactly (boundary
// "exactly at the level"); total 7 makes none of them an integer (boundary of the integer division).
var c09Profiles = [][]int64{{2, 2, 1, 1}, {3, 2, 1, 1}}

// c09Sets returns the validator sets of heights 1..n+1 (index h) for a pattern and power profile; a
// churn step replaces the oldest members (by fresh keys of the same power) until at least the
// requested fraction of the power is new.
func c09Sets(pattern, n, profile int) [][]c09Member {
	pw := c09Profiles[profile]
	cur := []c09Member{{0, pw[0]}, {1, pw[1]}, {2, pw[2]}, {3, pw[3]}}
	total := pw[0] + pw[1] + pw[2] + pw[3]
	next := 4
	sets := make([][]c09Member, n+2)
	sets[1] = append([]c09Member{}, cur...)
	for h := 2; h <= n+1; h++ {
		kind := c09Patterns[pattern][(h-2)%len(c09Patterns[pattern])]
		var need int64 // replaced*den >= total*num
		switch kind {
		case c09Third:
			need = (total + 2) / 3
		case c09Half:
			need = (total + 1) / 2
		case c09TwoThirds:
			need = (2*total + 2) / 3
		case c09All:
			need = total
		}
		var replaced int64
		out := []c09Member{}
		fresh := []c09Member{}
		for _, m := range cur {
			if replaced < need {
				replaced += m.Power
				fresh = append(fresh, c09Member{next, m.Power})
				next++
			} else {
				out = append(out, m)
			}
		}
		cur = append(out, fresh...)
		sets[h] = append([]c09Member{}, cur...)
	}
	return sets
}

func (e *c09Env) timeAt(h int64) time.Time { return e.t0.Add(time.Duration(h) * time.Minute) }

func c09AllSign(ms []c09Member) map[int]int {
	s := map[int]int{}
	for _, m := range ms {
		s[m.Key] = c09SlotValid
	}
	return s
}

// families of blocks a provider can serve at a height
const (
	c09FamHonest = iota
	c09FamEquiv   // same validator sets as the honest chain, other app hash, signed by everybody (double signing): verifiable wherever the honest block is
	c09FamLunatic // bogus validator set {two real big validators, one attacker}, all signing: passes a skipping step from a set that still holds both validators, never an adjacent step
	c09FamGarbage // attacker-only validator set signed by the attackers: never verifiable
	c09FamWeak    // honest sets, other app hash, signed by exactly half of the power: never verifiable
	c09NFam
)

var c09FamNames = []string{"honest", "equivocation-fork", "lunatic-fork", "garbage", "half-signed"}

// c09World is one generated universe: an honest chain and, for every height above the root, the
// forged alternatives. Forged families are chained among themselves through LastBlockID.
type c09World struct {
	Pattern int
	Profile int
	H       int
	Root    int64
	Sets    [][]c09Member
	Blocks  [c09NFam][]*c09Desc // [family][height]; honest family is filled for 1..H, the others for Root+1..H
}

func (e *c09Env) world(pattern, profile, H int, root int64) *c09World {
	w := &c09World{Pattern: pattern, Profile: profile, H: H, Root: root, Sets: c09Sets(pattern, H, profile)}
	for f := 0; f < c09NFam; f++ {
		w.Blocks[f] = make([]*c09Desc, H+1)
	}
	att := []c09Member{{c09Attacker, 1}, {c09Attacker + 1, 1}, {c09Attacker + 2, 1}}
	var prev []byte
	for h := 1; h <= H; h++ {
		d := e.build(c09Spec{Label: fmt.Sprintf("honest@%d", h), Height: int64(h), Time: e.timeAt(int64(h)), Vals: w.Sets[h],
			NextVals: w.Sets[h+1], App: "honest", PrevHash: prev, Slots: c09AllSign(w.Sets[h])})
		w.Blocks[c09FamHonest][h] = d
		prev = d.LB.Hash()
	}
	prevOf := func(f, h int) []byte {
		if h == 1 {
			return nil // root 0: the forged families start at the first height
		}
		if int64(h-1) <= root {
			return w.Blocks[c09FamHonest][h-1].LB.Hash()
		}
		return w.Blocks[f][h-1].LB.Hash()
	}
	for h := int(root) + 1; h <= H; h++ {
		// (its time is a second later than the genuine block's: a conflicting header need not carry the same timestamp)
		w.Blocks[c09FamEquiv][h] = e.build(c09Spec{Label: fmt.Sprintf("equiv@%d", h), Height: int64(h), Time: e.timeAt(int64(h)).Add(time.Second),
			Vals: w.Sets[h], NextVals: w.Sets[h+1], App: "equiv", PrevHash: prevOf(c09FamEquiv, h), Slots: c09AllSign(w.Sets[h])})
		// lunatic: the two biggest validators of the root set plus one attacker
		rs := w.Sets[root]
		if root == 0 {
			rs = w.Sets[1]
		}
		lv := []c09Member{rs[0], rs[1], {c09Attacker, 1}}
		if 2*(rs[0].Power+rs[1].Power) < rs[0].Power+rs[1].Power+rs[2].Power+rs[3].Power+1 { // keep more than half of the root's power whatever the rotation did
			lv = []c09Member{rs[0], rs[1], rs[2], {c09Attacker, 1}}
		}
		w.Blocks[c09FamLunatic][h] = e.build(c09Spec{Label: fmt.Sprintf("lunatic@%d", h), Height: int64(h), Time: e.timeAt(int64(h)),
			Vals: lv, NextVals: lv, App: "lunatic", PrevHash: prevOf(c09FamLunatic, h), Slots: c09AllSign(lv)})
		w.Blocks[c09FamGarbage][h] = e.build(c09Spec{Label: fmt.Sprintf("garbage@%d", h), Height: int64(h), Time: e.timeAt(int64(h)),
			Vals: att, NextVals: att, App: "garbage", PrevHash: prevOf(c09FamGarbage, h), Slots: c09AllSign(att)})
		// half signed: oldest members first while at most half of the power — never above two thirds
		half := map[int]int{}
		var got, tot int64
		for _, m := range w.Sets[h] {
			tot += m.Power
		}
		for _, m := range w.Sets[h] {
			if 2*(got+m.Power) <= tot {
				half[m.Key] = c09SlotValid
				got += m.Power
			}
		}
		w.Blocks[c09FamWeak][h] = e.build(c09Spec{Label: fmt.Sprintf("half-signed@%d", h), Height: int64(h), Time: e.timeAt(int64(h)),
			Vals: w.Sets[h], NextVals: w.Sets[h+1], App: "weak", PrevHash: prevOf(c09FamWeak, h), Slots: half})
	}
	return w
}

func c09HashEq(a, b []byte) bool { return bytes.Equal(a, b) }
