package rpc

// C20, last sentence of the statement: inclusion proofs served by a full node's RPC verify against the data hash of
// the block they refer to. Every transaction of every block of several chains (block sizes 0..N, duplicates inside a
// block and across blocks, failing transactions) is asked for through the real rpc/core Tx and TxSearch handlers
// (prove=true), and each proof is validated against the DataHash the builder recorded for the block the answer names.

import (
	"bytes"
	"fmt"
	"testing"
	"time"

	"github.com/tendermint/tendermint/internal/verif/vr"
	"github.com/tendermint/tendermint/rpc/core"
	ctypes "github.com/tendermint/tendermint/rpc/core/types"
	"github.com/tendermint/tendermint/types"
)

type c20ProofCase struct {
	Chain  string `json:"chain"`
	Via    string `json:"via"` // "tx" | "tx_search" (by height, ascending) | "tx_search_desc"
	Height int64  `json:"height"`
	Index  int    `json:"index"`
	// via range_asc / range_desc: TxSearch over heights Height..Hi, every page of PerPage results
	Hi      int64 `json:"hi,omitempty"`
	PerPage int   `json:"per_page,omitempty"`
}

func c20WideSpec(n int) c20ChainSpec {
	s := c20ChainSpec{Name: "wide", Events: true}
	for h := 1; h <= n; h++ {
		txs := []string{}
		for i := 0; i < h; i++ {
			txs = append(txs, fmt.Sprintf("nop:%d-%d", h, i))
		}
		s.Txs = append(s.Txs, txs)
	}
	// duplicates inside one block, the same list twice in a row, a repeat of an old transaction, a failing one
	s.Txs = append(s.Txs, []string{"nop:x", "nop:x", "nop:y"}, []string{"nop:z", "bad:1"}, []string{"nop:z", "bad:1"}, []string{"nop:1-0", "set:k=v"}, []string{})
	return s
}

// c20CheckRange: a search over a range of heights (several blocks in one result set), every page; each result's proof
// must verify against the data hash of the block that result names and prove exactly that result's transaction.
func c20CheckRange(ch *c20Chain, c c20ProofCase, r *vr.Report) (key, what string) {
	order := "asc"
	if c.Via == "range_desc" {
		order = "desc"
	}
	q := fmt.Sprintf("tx.height>=%d AND tx.height<=%d", c.Height, c.Hi)
	seen := 0
	for page := 1; ; page++ {
		pp := c.PerPage
		pg := page
		res, err := core.TxSearch(c20Ctx, q, true, &pg, &pp, order)
		if err != nil {
			if page > 1 && seen > 0 {
				break // page past the end
			}
			if seen == 0 && page == 1 {
				empty := true
				for h := c.Height; h <= c.Hi; h++ {
					empty = empty && len(ch.blocks[h].Data.Txs) == 0
				}
				if empty {
					r.Outcome(c.Via + ":empty-range")
					return "", ""
				}
			}
			return "rpc/core/tx.go:TxSearch:error", fmt.Sprintf("TxSearch(%s, page %d, per page %d, %s): %v", q, page, pp, order, err)
		}
		for _, x := range res.Txs {
			seen++
			blk := ch.blocks[x.Height]
			// (a transaction included again later is served at its last occurrence, possibly outside the range: the index keeps
			// one record per hash; the statement only asks that the proof verifies against the block the answer names)
			if blk == nil {
				return "rpc/core/tx.go:" + c.Via + ":proof-refers-to-unknown-block", fmt.Sprintf("%s: answer names height %d", q, x.Height)
			}
			if err := x.Proof.Validate(blk.DataHash); err != nil {
				return "rpc/core/tx.go:TxSearch:multi-block-result:proof-does-not-verify-against-data-hash",
					fmt.Sprintf("TxSearch(%s, page %d, per page %d, %s): result at height %d index %d (tx %q): proof against that block's DataHash: %v", q, page, pp, order, x.Height, x.Index, []byte(x.Tx), err)
			}
			if !bytes.Equal(x.Proof.Data, x.Tx) || x.Proof.Proof.Index != int64(x.Index) || int(x.Index) >= len(blk.Data.Txs) || !bytes.Equal(blk.Data.Txs[x.Index], x.Tx) {
				return "rpc/core/tx.go:TxSearch:multi-block-result:proof-is-for-another-leaf",
					fmt.Sprintf("TxSearch(%s, page %d, per page %d, %s): result at height %d index %d is tx %q but the proof proves leaf %d (%q)", q, page, pp, order, x.Height, x.Index, []byte(x.Tx), x.Proof.Proof.Index, []byte(x.Proof.Data))
			}
		}
		if len(res.Txs) == 0 || seen >= res.TotalCount {
			break
		}
	}
	r.Outcome(fmt.Sprintf("%s:all-proofs-ok", c.Via))
	return "", ""
}

func c20CheckProof(ch *c20Chain, c c20ProofCase, r *vr.Report) (key, what string) {
	if c.Via == "range_asc" || c.Via == "range_desc" {
		return c20CheckRange(ch, c, r)
	}
	want := ch.blocks[c.Height].Data.Txs[c.Index]
	var got *ctypes.ResultTx
	switch c.Via {
	case "tx":
		res, err := newC20Node(ch, nil).Tx(nil, want.Hash(), true)
		if err != nil {
			return "rpc/core/tx.go:Tx:indexed-transaction-not-served", fmt.Sprintf("Tx(%X) of block %d: %v", want.Hash(), c.Height, err)
		}
		got = res
	case "tx_search", "tx_search_desc":
		one, hundred := 1, 100
		order := "asc"
		if c.Via == "tx_search_desc" {
			order = "desc"
		}
		res, err := core.TxSearch(c20Ctx, fmt.Sprintf("tx.height=%d", c.Height), true, &one, &hundred, order)
		if err != nil {
			return "rpc/core/tx.go:TxSearch:error", fmt.Sprintf("TxSearch(tx.height=%d): %v", c.Height, err)
		}
		for _, x := range res.Txs {
			if x.Height == c.Height && int(x.Index) == c.Index {
				got = x
			}
		}
		if got == nil {
			// an older occurrence of a transaction that was included again later: the index keeps the last one only
			if at := ch.txAt[string(want.Hash())]; at != [2]int64{c.Height, int64(c.Index)} {
				r.Outcome(c.Via + ":superseded-by-later-occurrence")
				return "", ""
			}
			return "rpc/core/tx.go:TxSearch:indexed-transaction-not-served", fmt.Sprintf("tx.height=%d does not return index %d", c.Height, c.Index)
		}
	}
	blk := ch.blocks[got.Height]
	if blk == nil {
		return "rpc/core/tx.go:" + c.Via + ":proof-refers-to-unknown-block", fmt.Sprintf("answer names height %d", got.Height)
	}
	if err := got.Proof.Validate(blk.DataHash); err != nil {
		return "rpc/core/tx.go:" + c.Via + ":proof-does-not-verify-against-data-hash",
			fmt.Sprintf("%s for tx %q (block %d index %d): answer names height %d index %d; proof against that block's DataHash: %v", c.Via, []byte(want), c.Height, c.Index, got.Height, got.Index, err)
	}
	if !bytes.Equal(got.Proof.Data, got.Tx) || !bytes.Equal(got.Tx, want) || got.Proof.Proof.Index != int64(got.Index) ||
		int(got.Index) >= len(blk.Data.Txs) || !bytes.Equal(blk.Data.Txs[got.Index], got.Tx) {
		return "rpc/core/tx.go:" + c.Via + ":proof-is-for-another-leaf",
			fmt.Sprintf("%s for tx %q: the proof verifies but proves leaf %d (%q) while the answer is tx %q at height %d index %d", c.Via, []byte(want), got.Proof.Proof.Index, []byte(got.Proof.Data), []byte(got.Tx), got.Height, got.Index)
	}
	// diagnostic: it must not verify against a block with another data hash
	for h, b := range ch.blocks {
		if h != got.Height && !bytes.Equal(b.DataHash, blk.DataHash) && got.Proof.Validate(b.DataHash) == nil {
			r.Add("diag_proof_verifies_against_foreign_data_hash", 1)
		}
	}
	if got.Height != c.Height || int(got.Index) != c.Index {
		r.Outcome(c.Via + ":proof-ok(last occurrence served)")
	} else {
		r.Outcome(fmt.Sprintf("%s:proof-ok(aunts=%d)", c.Via, len(got.Proof.Proof.Aunts)))
	}
	return "", ""
}

func TestVerifC20CoreProofs(t *testing.T) {
	r := vr.Start("C20", "coreproofs", 60*time.Second, 5*time.Minute)
	defer r.Finish()
	r.Rule = "every (chain, block, index) x {Tx, TxSearch by height ascending, descending} and every (chain, range of heights lo<hi, order, page size 1/3/100, every page) with prove=true on the real rpc/core handlers; non-trivial = proofs with at least one aunt " +
		"(blocks of 2..N transactions), duplicates inside a block / across blocks counted too"
	r.Assume("DataHash ground truth is the header the real executor produced for the transaction list the harness chose")
	specs := append(c20Specs(), c20WideSpec(vr.Pick(9, 17)))
	chains := map[string]*c20Chain{}
	for _, s := range specs {
		ch, err := c20BuildChain(s)
		if err != nil {
			r.Cap("fixture: " + err.Error())
			return
		}
		defer ch.stop()
		chains[s.Name] = ch
	}
	run := func(c c20ProofCase) {
		ch := chains[c.Chain]
		ch.activate()
		r.Eval()
		if len(ch.blocks[c.Height].Data.Txs) > 1 || c.Hi > c.Height {
			r.NTCount(1)
		}
		if key, what := c20CheckProof(ch, c, r); key != "" {
			first := fmt.Errorf("%s", key)
			if !vr.Confirm(3, first, func() error {
				k2, _ := c20CheckProof(ch, c, r)
				if k2 == "" {
					return nil
				}
				return fmt.Errorf("%s", k2)
			}) {
				panic(fmt.Sprintf("C20 coreproofs nondeterministic on %+v", c))
			}
			r.Violation(key, what, c)
		}
	}
	var rc c20ProofCase
	if rep, skip := r.ReplayCase(&rc); skip {
		return
	} else if rep {
		run(rc)
		return
	}
	k := 0
	for _, s := range specs {
		ch := chains[s.Name]
		for h := int64(1); h <= ch.tip; h++ {
			for i := range ch.blocks[h].Data.Txs {
				for _, via := range []string{"tx", "tx_search", "tx_search_desc"} {
					k++
					if !r.Mine(k) {
						continue
					}
					c := c20ProofCase{Chain: s.Name, Via: via, Height: h, Index: i}
					run(c)
					if k%40 == 1 {
						r.Sample(c)
					}
				}
			}
		}
	}
	// searches whose result set spans several blocks: every range of heights, both orders, pages of 1 / 3 / 100
	for _, s := range specs {
		ch := chains[s.Name]
		for lo := int64(1); lo <= ch.tip; lo++ {
			for hi := lo + 1; hi <= ch.tip; hi++ {
				for _, via := range []string{"range_asc", "range_desc"} {
					for _, pp := range []int{1, 3, 100} {
						k++
						if !r.Mine(k) {
							continue
						}
						if pp == 1 && hi-lo > 3 && !vr.Thorough() {
							continue
						}
						run(c20ProofCase{Chain: s.Name, Via: via, Height: lo, Hi: hi, PerPage: pp})
					}
				}
			}
		}
	}
	r.Bound = fmt.Sprintf("chains rich, plain, wide(block sizes 1..%d + duplicate/failing cases)", vr.Pick(9, 17))
	_ = types.Tx(nil)
}
