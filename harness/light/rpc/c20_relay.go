package rpc

// C20 — the verifying RPC client relays an answer iff it matches light-verified headers.
//
// Exhaustive enumeration, on the real light/rpc.Client over a real light.Client (real light/provider/http
// providers) talking to the real rpc/core handlers, of
//   honest:    chains x light-client configurations x warm-up prefixes (which heights are already trusted)
//              x every operation (method x every height / page / key / tx)
//   falsified: light-client configurations x operations x every single-field falsification of the response
//              the client consumes (directly, or through its provider: /commit and /validators)
// Oracle, exactly the statement: (1) whatever is returned is consistent, in every header-committed part,
// with the canonical chain; (2) an honest answer whose committing header already exists is returned.

import (
	"fmt"
	"regexp"
	"sort"
	"strings"
	"testing"
	"time"

	"github.com/tendermint/tendermint/internal/verif/vr"
	tmjson "github.com/tendermint/tendermint/libs/json"
	ctypes "github.com/tendermint/tendermint/rpc/core/types"
)

type c20Lie struct {
	Method string `json:"method"`        // RPC method whose response is falsified
	At     int64  `json:"at,omitempty"`  // commit / validators: only the response about this height (0 = every response)
	Nth    int    `json:"nth,omitempty"` // 0 = every matching response, n = only the n-th matching response
	Field  string `json:"field"`
}

type c20Case struct {
	Chain   string  `json:"chain"`
	LC      c20LC   `json:"lc"`
	Warm    []c20Op `json:"warm,omitempty"`     // honest operations executed first (the server starts lying afterwards)
	WarmAll bool    `json:"warm_all,omitempty"` // verify every height individually first
	Op      c20Op   `json:"op"`
	Lie     *c20Lie `json:"lie,omitempty"`
	// Grow: the node has committed all but the last block when it answers the operation (a "latest" request) and commits the last
	// block right after producing that answer, before the verifying client turns to its light client
	Grow bool `json:"chain_grows_after_the_answer,omitempty"`
}

type c20Env struct {
	chains map[string]*c20Chain
}

func c20Specs() []c20ChainSpec {
	rich := c20ChainSpec{Name: "rich", Events: true, AbsentVote: map[int64]int{6: 1}, Txs: [][]string{
		{"set:a=1"},
		{},
		{"set:b=2", "val:3=10", "set:e1=x"},
		{"bad:1", "set:a=3"},
		{"val:4=10", "nop:1", "nop:2", "nop:3", "nop:4"},
		{"val:0=0"},
		{"val:1=0", "par:1048576"},
		{"nop:dup"},
		{"nop:dup"},
		{},
		{"set:c=9", "del:b", "nop:5", "nop:6", "nop:7", "nop:8", "nop:9"},
		{},
	}}
	plain := c20ChainSpec{Name: "plain", Events: false, Txs: [][]string{{}, {}, {}, {}}}
	return []c20ChainSpec{rich, plain}
}

func newC20Env() (*c20Env, error) {
	e := &c20Env{chains: map[string]*c20Chain{}}
	for _, s := range c20Specs() {
		ch, err := c20BuildChain(s)
		if err != nil {
			return nil, err
		}
		e.chains[s.Name] = ch
	}
	return e, nil
}

func c20JSON(v interface{}) string {
	bz, err := tmjson.Marshal(v)
	if err != nil {
		return "!" + err.Error()
	}
	return string(bz)
}

var c20IdxRe = regexp.MustCompile(`\[\d+\]`)

func c20FieldClass(method, field string) string {
	f := c20IdxRe.ReplaceAllString(field, "[i]")
	if i := strings.IndexByte(f, ':'); i > 0 {
		f = f[:i]
	}
	f = strings.TrimRight(f, "+-1")
	if strings.Contains(f, "&") {
		f = "self-consistent-forgery"
	}
	if strings.HasPrefix(f, "SignedHeader.Commit.") {
		f = "SignedHeader.Commit"
	} else if i := strings.Index(f, ".Header."); i >= 0 {
		f = f[:i+7]
	}
	if method == "tx" && (f == "Tx" || f == "Hash" || f == "Index" || f == "Proof") {
		return "result-fields-not-bound-to-proof"
	}
	return "relays-falsified:" + f
}

type c20Result struct {
	key, what string
	outcome   string
	nontriv   bool
}

func (e *c20Env) run(r *vr.Report, c c20Case) c20Result {
	ch := e.chains[c.Chain]
	if ch == nil {
		panic("c20: unknown chain " + c.Chain)
	}
	ch.activate()
	if c.Grow {
		ch.setVis(ch.tip - 1)
		defer ch.setVis(0)
	}
	sut, err := c20NewSUT(ch, c.LC)
	if err != nil {
		panic(fmt.Sprintf("c20: light client cannot be initialised on the honest chain: %v", err))
	}
	api := c20ClientAPI{sut.cl}
	for _, w := range c.Warm {
		c20Call(api, ch, w)
	}
	if c.WarmAll {
		for h := int64(1); h <= ch.tip; h++ {
			c20Call(api, ch, c20Op{M: "commit", H: h})
		}
	}
	method := c20MethodName[c.Op.M]
	hres, herr, _ := c20Call(c20NodeAPI{newC20Node(ch, nil)}, ch, c.Op)
	commitCallsBefore := sut.primary.callCount("commit") + sut.witness.callCount("commit")

	if c.Lie == nil {
		answers := c20NodeAnswers(hres, herr)
		if c.Grow {
			grown := false
			sut.primary.afterServe = func(method, key string) {
				if !grown && method == c.Op.M {
					grown = true
					ch.setVis(ch.tip)
				}
			}
		}
		res, err, pan := c20Call(api, ch, c.Op)
		out := c20Result{nontriv: sut.primary.callCount("commit")+sut.witness.callCount("commit") > commitCallsBefore}
		if err == nil && pan == "" && res != nil {
			bad, other := c20Consistent(ch, c.Op, res)
			if bad != "" {
				out.key = "light/rpc/client.go:" + method + ":returns-inconsistent-data-from-honest-node"
				out.what = fmt.Sprintf("%s against an honest node returned data that disagrees with the chain: %s", c.Op, bad)
				return out
			}
			if other {
				r.Add("diag_honest_answer_is_for_another_request", 1)
			}
			out.outcome = "honest:returned"
			return out
		}
		class := c20ErrClass(err, pan)
		switch {
		case !answers:
			out.outcome = "honest:node-has-no-answer"
		case !c20Provable(ch, c.Op, hres):
			out.outcome = "honest:refused-committing-header-not-on-chain-yet"
		case c.Op.AbsPath:
			// harness-only key convention (exists to reach the absence branch of the client): not judged for liveness
			out.outcome = "honest:abspath-variant-refused"
		default:
			out.key = "light/rpc/client.go:" + method + ":honest-answer-refused:" + class
			msg := pan
			if err != nil {
				msg = err.Error()
			}
			out.what = fmt.Sprintf("an honest full node answers %s (light client anchored at %d/%s, %d warm-up op(s)) but the verifying client does not return it: %s",
				c.Op, c.LC.Anchor, c.LC.Mode, len(c.Warm), msg)
		}
		return out
	}

	// falsified
	var mut *c20Mut
	for _, m := range c20MutsFor(c.Lie.Method) {
		if m.Name == c.Lie.Field {
			mm := m
			mut = &mm
		}
	}
	if mut == nil {
		panic("c20: unknown falsification " + c.Lie.Method + "/" + c.Lie.Field)
	}
	applied := false
	matches := 0
	sut.primary.setLie(func(m string, res interface{}) {
		if m != c.Lie.Method {
			return
		}
		if c.Lie.At != 0 {
			switch x := res.(type) {
			case *ctypes.ResultCommit:
				if x.Header == nil || x.Header.Height != c.Lie.At {
					return
				}
			case *ctypes.ResultValidators:
				if x.BlockHeight != c.Lie.At {
					return
				}
			}
		}
		matches++
		if c.Lie.Nth != 0 && matches != c.Lie.Nth {
			return
		}
		before := c20JSON(res)
		if mut.F(res, ch) && c20JSON(res) != before {
			applied = true
		}
	})
	res, err, pan := c20Call(api, ch, c.Op)
	out := c20Result{nontriv: applied}
	cls := c20ClassName[mut.Class]
	switch {
	case !applied:
		out.outcome = "lie:not-applicable"
	case pan != "" && c.Op.H == 0 && (c.Op.M == "commit" || c.Op.M == "validators") && strings.Contains(pan, "nil pointer"):
		// the same nil dereference the honest run reports (Update returned no block): not caused by the falsification
		out.outcome = "lie:panic-as-in-honest-run(nil light block)"
	case pan != "":
		r.Add("diag_panic_on_falsified_response", 1)
		r.Add("panic_on_falsified:"+method+"<-"+c.Lie.Method+"."+c20IdxRe.ReplaceAllString(c.Lie.Field, "[i]")+": "+pan, 1)
		out.outcome = "lie:" + cls + ":panic"
	case err != nil || res == nil:
		out.outcome = "lie:" + cls + ":refused"
	default:
		bad, other := c20Consistent(ch, c.Op, res)
		if bad != "" {
			out.key = "light/rpc/client.go:" + method + ":" + c20FieldClass(c.Lie.Method, c.Lie.Field)
			if mut.Class != c20Committed {
				// the falsified field is not a committed one, so the inconsistency is not the falsification itself
				out.key = "light/rpc/client.go:" + method + ":returns-inconsistent-data-while-uncommitted-field-falsified"
			}
			if (c.Lie.Method == "commit" || c.Lie.Method == "validators") && c.Op.H != 0 && c.Op.H < c.LC.Anchor && len(c.Warm) == 0 && !c.WarmAll {
				// the light client reaches the target by backwards (hash-chain) verification: light.Client.backwards
				switch {
				case strings.HasPrefix(c.Lie.Field, "SignedHeader.Header."):
					out.key = "light/client.go:backwards:forged-target-header-trusted:via-" + method
				case strings.HasPrefix(c.Lie.Field, "SignedHeader.Commit."):
					out.key = "light/client.go:backwards:unverified-commit-stored-and-relayed:via-" + method
				default:
					out.key += ":target-below-trusted-anchor"
				}
			}
			out.what = fmt.Sprintf("%s: the server falsified %s.%s and the verifying client (anchored at %d/%s) returned it without error: %s",
				c.Op, c.Lie.Method, c.Lie.Field, c.LC.Anchor, c.LC.Mode, bad)
			return out
		}
		if other {
			r.Add("diag_genuine_data_of_another_request_relayed", 1)
		}
		out.outcome = "lie:" + cls + ":returned-consistent"
		if mut.Class != c20Committed {
			// was the falsified value itself handed to the caller? compare with what an un-lied-to client returns
			ref, err2 := c20NewSUT(ch, c.LC)
			if err2 == nil {
				rapi := c20ClientAPI{ref.cl}
				for _, w := range c.Warm {
					c20Call(rapi, ch, w)
				}
				if c.WarmAll {
					for h := int64(1); h <= ch.tip; h++ {
						c20Call(rapi, ch, c20Op{M: "commit", H: h})
					}
				}
				if rres, _, _ := c20Call(rapi, ch, c.Op); rres != nil && c20JSON(rres) != c20JSON(res) {
					out.outcome = "lie:" + cls + ":relayed"
					r.Add("relayed_"+cls+":"+method+"."+c20IdxRe.ReplaceAllString(c.Lie.Field, "[i]"), 1)
				}
			}
		}
	}
	return out
}

// ---------------------------------------------------------------------------------------------
// enumeration

func c20Ops(ch *c20Chain) []c20Op {
	ops := []c20Op{}
	for h := int64(0); h <= ch.tip; h++ {
		ops = append(ops, c20Op{M: "block", H: h})
	}
	for h := int64(1); h <= ch.tip; h++ {
		ops = append(ops, c20Op{M: "block_by_hash", H: h})
	}
	ops = append(ops, c20Op{M: "block_by_hash", H: 1, Unknown: true})
	for a := int64(1); a <= ch.tip; a++ {
		for b := a; b <= ch.tip && b-a <= 3; b++ {
			ops = append(ops, c20Op{M: "blockchain", H: a, H2: b})
		}
	}
	for h := int64(0); h <= ch.tip; h++ {
		ops = append(ops, c20Op{M: "commit", H: h})
	}
	for h := int64(0); h <= ch.tip; h++ {
		for _, pp := range [][2]int{{0, 0}, {1, 2}, {2, 2}, {3, 2}, {1, 1}, {0, 101}, {2, 0}} {
			ops = append(ops, c20Op{M: "validators", H: h, Page: pp[0], PerPage: pp[1]})
		}
	}
	for h := int64(0); h <= ch.tip+1; h++ {
		ops = append(ops, c20Op{M: "consensus_params", H: h})
	}
	seen := map[string]bool{}
	for h := int64(1); h <= ch.tip; h++ {
		for _, tx := range ch.blocks[h].Data.Txs {
			if !seen[string(tx)] {
				seen[string(tx)] = true
				ops = append(ops, c20Op{M: "tx", Tx: string(tx)})
			}
		}
	}
	ops = append(ops, c20Op{M: "tx", Unknown: true})
	for h := int64(0); h <= ch.tip; h++ {
		ops = append(ops, c20Op{M: "block_results", H: h})
	}
	for h := int64(0); h <= ch.tip; h++ {
		for _, sk := range [][2]string{{"main", "a"}, {"main", "b"}, {"main", "nokey"}, {"main", "version"}, {"aux", "version"}, {"aux", "nokey"}} { // main/version: absent here, present in the other store
			ops = append(ops, c20Op{M: "abci_query", H: h, Store: sk[0], Key: sk[1]})
			if sk[1] == "nokey" {
				ops = append(ops, c20Op{M: "abci_query", H: h, Store: sk[0], Key: sk[1], AbsPath: true})
			}
		}
	}
	ops = append(ops, c20Op{M: "abci_query", H: 1, Store: "nostore", Key: "a"})
	return ops
}

func c20LCs(ch *c20Chain) []c20LC {
	if ch.tip < 6 {
		return []c20LC{{1, "seq"}, {ch.tip, "skip"}}
	}
	return []c20LC{{1, "seq"}, {1, "skip"}, {ch.tip, "seq"}, {ch.tip / 2, "skip"}}
}

func c20Warms(ch *c20Chain, depth int) [][]c20Op {
	single := []c20Op{}
	for h := int64(0); h <= ch.tip; h++ {
		single = append(single, c20Op{M: "commit", H: h})
	}
	out := [][]c20Op{nil}
	if depth >= 1 {
		for _, w := range single {
			out = append(out, []c20Op{w})
		}
	}
	if depth >= 2 {
		for _, w1 := range single {
			for _, w2 := range single {
				if w1 != w2 {
					out = append(out, []c20Op{w1, w2})
				}
			}
		}
	}
	return out
}

func TestVerifC20Relay(t *testing.T) {
	r := vr.Start("C20", "relay", 110*time.Second, 20*time.Minute)
	defer r.Finish()
	r.Rule = "honest: every latest-height operation while the chain grows by one block between the node's answer and the light-client update; chain x light-client (anchor, mode) x warm-up prefix (heights already trusted, depth<=1 quick / <=2 thorough) x every operation " +
		"(9 methods x every height/page/key/tx); falsified: light-client config x operation x every single-field falsification of the response the " +
		"client consumes (its own RPC call, or the /commit and /validators calls of its light-client provider at the target and neighbouring heights). " +
		"non-trivial = honest cases in which the light client had to fetch and verify at least one new header, and falsified cases whose falsification " +
		"really changed a response the client consumed"
	r.Assume("the light client has one honest witness (same chain, never falsified); the lying server cannot forge validator signatures")
	r.Assume("block times lie hours inside the trusting period and hours before now: no verdict depends on the wall clock")
	r.Assume("application proofs: two-level merkle.ValueOp store plus a harness absence op registered through Client.RegisterOpDecoder; a key-less step operator type is registered too and used only by the lying server")

	e, err := newC20Env()
	if err != nil {
		r.Cap("fixture: " + err.Error())
		return
	}
	defer func() {
		for _, ch := range e.chains {
			ch.stop()
		}
	}()

	confirmed := map[string]bool{}
	judge := func(c c20Case) {
		res := e.run(r, c)
		if res.nontriv {
			r.NTCount(1)
		}
		if res.key != "" {
			first := fmt.Errorf("%s", res.key)
			if confirmed[res.key] {
				// this failure class was already re-executed three times in this process
			} else if !vr.Confirm(3, first, func() error {
				r2 := e.run(r, c)
				if r2.key == "" {
					return nil
				}
				return fmt.Errorf("%s", r2.key)
			}) {
				panic(fmt.Sprintf("C20 harness nondeterministic on %+v (%s)", c, res.key))
			}
			confirmed[res.key] = true
			r.Violation(res.key, res.what, c)
			r.Outcome("VIOLATION")
			return
		}
		r.Outcome(res.outcome)
	}

	var rc c20Case
	if rep, skip := r.ReplayCase(&rc); skip {
		return
	} else if rep {
		r.Eval()
		judge(rc)
		return
	}

	// what the evidence lists as excluded from the verdict
	unver, unbound := []string{}, []string{}
	for _, m := range []string{"block", "blockchain", "commit", "validators", "consensus_params", "tx", "block_results", "abci_query"} {
		for _, mu := range c20MutsFor(m) {
			n := m + "." + c20IdxRe.ReplaceAllString(mu.Name, "[i]")
			switch mu.Class {
			case c20Unverifiable:
				unver = append(unver, n)
			case c20Unbound:
				unbound = append(unbound, n)
			}
		}
	}
	dedup := func(s []string) []string {
		sort.Strings(s)
		o := []string{}
		for i, x := range s {
			if i == 0 || s[i-1] != x {
				o = append(o, x)
			}
		}
		return o
	}
	r.Set("unverifiable_by_design", dedup(unver))
	r.Set("bound_only_outside_the_verified_header", dedup(unbound))
	r.Note("passed through unverified by design (outside the statement): Tx(prove=false), TxSearch, BlockSearch, Status, ABCIInfo, Genesis, NetInfo, mempool and subscription calls")

	k := 0
	stop := false
	try := func(c c20Case) {
		if stop {
			return
		}
		k++
		if !r.Mine(k) {
			return
		}
		if k%16 == 0 && r.Deadline("C20 relay enumeration") {
			stop = true
			return
		}
		r.Eval()
		judge(c)
		if k%9973 == 1 {
			r.Sample(c)
		}
	}

	names := []string{"rich", "plain"}
	depth := vr.Pick(1, 2)
	// 0. honest, "latest" requests while the chain grows by one block between the node's answer and the client's light-client update
	for _, name := range names {
		ch := e.chains[name]
		for _, lc := range c20LCs(ch) {
			if lc.Anchor >= ch.tip {
				continue
			}
			for _, op := range c20Ops(ch) {
				if op.H != 0 || op.Unknown || op.M == "tx" || op.M == "blockchain" || op.M == "block_by_hash" {
					continue
				}
				try(c20Case{Chain: name, LC: lc, Op: op, Grow: true})
			}
		}
	}
	// 1. falsified (the rich chain; the plain chain for the methods where an empty chain is a boundary)
	for _, name := range names {
		ch := e.chains[name]
		lcs := c20LCs(ch)
		if len(lcs) > 3 && !vr.Thorough() {
			lcs = lcs[:3]
		}
		direct := lcs
		if !vr.Thorough() && len(lcs) == 3 {
			direct = lcs[1:] // forward skipping + backwards; forward sequential is in the provider cases and in thorough
		}
		for _, op := range c20Ops(ch) {
			if op.Unknown || op.M == "commit" || op.M == "validators" {
				continue
			}
			if name == "plain" && op.M != "block" && op.M != "block_results" && op.M != "consensus_params" {
				continue
			}
			for _, mu := range c20MutsFor(op.M) {
				for _, lc := range direct {
					try(c20Case{Chain: name, LC: lc, Op: op, WarmAll: op.M == "blockchain", Lie: &c20Lie{Method: op.M, Field: mu.Name}})
				}
			}
		}
		// through the provider: target operation x falsified /commit or /validators at the target or a neighbouring height
		if name != "rich" {
			continue
		}
		for h := int64(0); h <= ch.tip; h++ {
			for _, target := range []c20Op{{M: "commit", H: h}, {M: "validators", H: h}, {M: "block", H: h}} {
				if h == 0 && target.M == "block" {
					continue
				}
				hh := h
				if hh == 0 {
					hh = ch.tip
				}
				gs := []int64{hh, hh - 1, hh + 1}
				if vr.Thorough() { // every height the light client may touch on its way
					gs = gs[:0]
					for g := int64(1); g <= ch.tip; g++ {
						gs = append(gs, g)
					}
				}
				for _, g := range gs {
					if g < 1 || g > ch.tip {
						continue
					}
					for _, pm := range []string{"commit", "validators"} {
						for _, mu := range c20MutsFor(pm) {
							for _, lc := range lcs {
								for nth := 0; nth <= vr.Pick(1, 2); nth++ {
									try(c20Case{Chain: name, LC: lc, Op: target, Lie: &c20Lie{Method: pm, At: g, Nth: nth, Field: mu.Name}})
								}
							}
						}
					}
				}
			}
		}
	}
	// 2. honest
	for _, name := range names {
		ch := e.chains[name]
		for _, lc := range c20LCs(ch) {
			for _, warm := range c20Warms(ch, depth) {
				for _, op := range c20Ops(ch) {
					try(c20Case{Chain: name, LC: lc, Warm: warm, Op: op})
				}
			}
		}
	}
	if !stop {
		r.Bound = fmt.Sprintf("chains rich(12 heights, 25 txs, 5 validator-set changes, 1 params change, events) + plain(4 empty heights); warm-up depth %d; all single-field falsifications", depth)
	}
}
