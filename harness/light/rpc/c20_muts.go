package rpc

// C20 — the lying server's alphabet: single-field falsifications of every response kind.

import (
	"bytes"
	"fmt"
	"time"

	abci "github.com/tendermint/tendermint/abci/types"
	"github.com/tendermint/tendermint/crypto/merkle"
	tmcrypto "github.com/tendermint/tendermint/proto/tendermint/crypto"
	ctypes "github.com/tendermint/tendermint/rpc/core/types"
	"github.com/tendermint/tendermint/types"
)

const (
	c20Committed    = 0 // a header (hash) commits to the field: relaying a falsified value violates the property
	c20Unbound      = 1 // bound only by signatures / by a header other than the one the client verifies: diagnostic
	c20Unverifiable = 2 // no header commits to it in this protocol version: listed, excluded from the verdict
	c20Other        = 3 // genuine data of another request, or an omission: diagnostic
)

var c20ClassName = []string{"committed", "unbound", "unverifiable", "other-request"}

type c20Mut struct {
	Name  string
	Class int
	F     func(res interface{}, ch *c20Chain) bool // false: not applicable to this response
}

func c20Flip(b []byte) []byte {
	if len(b) == 0 {
		return bytes.Repeat([]byte{0x5a}, 32)
	}
	o := append([]byte{}, b...)
	o[len(o)/2] ^= 0x01
	return o
}

func c20HeaderMuts(prefix string, get func(res interface{}) *types.Header) []c20Mut {
	mk := func(name string, f func(h *types.Header)) c20Mut {
		return c20Mut{Name: prefix + name, Class: c20Committed, F: func(res interface{}, _ *c20Chain) bool {
			h := get(res)
			if h == nil {
				return false
			}
			f(h)
			return true
		}}
	}
	return []c20Mut{
		mk("Version.Block", func(h *types.Header) { h.Version.Block++ }),
		mk("Version.App", func(h *types.Header) { h.Version.App++ }),
		mk("ChainID", func(h *types.Header) { h.ChainID += "x" }),
		mk("Height+1", func(h *types.Header) { h.Height++ }),
		mk("Height-1", func(h *types.Header) { h.Height-- }),
		mk("Time", func(h *types.Header) { h.Time = h.Time.Add(time.Nanosecond) }),
		mk("LastBlockID.Hash", func(h *types.Header) { h.LastBlockID.Hash = c20Flip(h.LastBlockID.Hash) }),
		mk("LastBlockID.PartSetHeader.Total", func(h *types.Header) { h.LastBlockID.PartSetHeader.Total++ }),
		mk("LastBlockID.PartSetHeader.Hash", func(h *types.Header) { h.LastBlockID.PartSetHeader.Hash = c20Flip(h.LastBlockID.PartSetHeader.Hash) }),
		mk("LastCommitHash", func(h *types.Header) { h.LastCommitHash = c20Flip(h.LastCommitHash) }),
		mk("DataHash", func(h *types.Header) { h.DataHash = c20Flip(h.DataHash) }),
		mk("ValidatorsHash", func(h *types.Header) { h.ValidatorsHash = c20Flip(h.ValidatorsHash) }),
		mk("NextValidatorsHash", func(h *types.Header) { h.NextValidatorsHash = c20Flip(h.NextValidatorsHash) }),
		mk("ConsensusHash", func(h *types.Header) { h.ConsensusHash = c20Flip(h.ConsensusHash) }),
		mk("AppHash", func(h *types.Header) { h.AppHash = c20Flip(h.AppHash) }),
		mk("LastResultsHash", func(h *types.Header) { h.LastResultsHash = c20Flip(h.LastResultsHash) }),
		mk("EvidenceHash", func(h *types.Header) { h.EvidenceHash = c20Flip(h.EvidenceHash) }),
		mk("ProposerAddress", func(h *types.Header) { h.ProposerAddress = c20Flip(h.ProposerAddress) }),
	}
}

func c20CommitMuts(prefix string, get func(res interface{}) *types.Commit, topClass int) []c20Mut {
	mk := func(name string, class int, f func(c *types.Commit) bool) c20Mut {
		return c20Mut{Name: prefix + name, Class: class, F: func(res interface{}, _ *c20Chain) bool {
			c := get(res)
			if c == nil {
				return false
			}
			return f(c)
		}}
	}
	out := []c20Mut{
		mk("Height", topClass, func(c *types.Commit) bool { c.Height++; return true }),
		mk("Round", topClass, func(c *types.Commit) bool { c.Round++; return true }),
		mk("BlockID.Hash", topClass, func(c *types.Commit) bool { c.BlockID.Hash = c20Flip(c.BlockID.Hash); return true }),
		mk("BlockID.PartSetHeader.Total", topClass, func(c *types.Commit) bool { c.BlockID.PartSetHeader.Total++; return true }),
		mk("BlockID.PartSetHeader.Hash", topClass, func(c *types.Commit) bool {
			c.BlockID.PartSetHeader.Hash = c20Flip(c.BlockID.PartSetHeader.Hash)
			return true
		}),
		mk("Signatures:drop-last", c20Committed, func(c *types.Commit) bool {
			if len(c.Signatures) == 0 {
				return false
			}
			c.Signatures = c.Signatures[:len(c.Signatures)-1]
			return true
		}),
		mk("Signatures:append", c20Committed, func(c *types.Commit) bool {
			if len(c.Signatures) == 0 {
				return false
			}
			c.Signatures = append(c.Signatures, c.Signatures[0])
			return true
		}),
	}
	for i := 0; i < 5; i++ {
		i := i
		sig := func(name string, f func(s *types.CommitSig) bool) c20Mut {
			return mk(fmt.Sprintf("Signatures[%d].%s", i, name), c20Committed, func(c *types.Commit) bool {
				if i >= len(c.Signatures) {
					return false
				}
				return f(&c.Signatures[i])
			})
		}
		out = append(out,
			sig("BlockIDFlag", func(s *types.CommitSig) bool {
				if s.BlockIDFlag != types.BlockIDFlagCommit {
					return false
				}
				s.BlockIDFlag = types.BlockIDFlagNil
				return true
			}),
			sig("ValidatorAddress", func(s *types.CommitSig) bool {
				if len(s.ValidatorAddress) == 0 {
					return false
				}
				s.ValidatorAddress = c20Flip(s.ValidatorAddress)
				return true
			}),
			sig("Timestamp", func(s *types.CommitSig) bool {
				if s.BlockIDFlag == types.BlockIDFlagAbsent {
					return false
				}
				s.Timestamp = s.Timestamp.Add(time.Nanosecond)
				return true
			}),
			sig("Signature", func(s *types.CommitSig) bool {
				if len(s.Signature) == 0 {
					return false
				}
				s.Signature = c20Flip(s.Signature)
				return true
			}))
	}
	return out
}

func c20BlockMuts() []c20Mut {
	blk := func(res interface{}) *types.Block {
		r := res.(*ctypes.ResultBlock)
		return r.Block
	}
	out := c20HeaderMuts("Block.Header.", func(res interface{}) *types.Header {
		if b := blk(res); b != nil {
			return &b.Header
		}
		return nil
	})
	mk := func(name string, class int, f func(r *ctypes.ResultBlock, ch *c20Chain) bool) c20Mut {
		return c20Mut{Name: name, Class: class, F: func(res interface{}, ch *c20Chain) bool {
			r := res.(*ctypes.ResultBlock)
			if r.Block == nil {
				return false
			}
			return f(r, ch)
		}}
	}
	for i := 0; i < 8; i++ {
		i := i
		out = append(out, mk(fmt.Sprintf("Block.Data.Txs[%d]", i), c20Committed, func(r *ctypes.ResultBlock, _ *c20Chain) bool {
			if i >= len(r.Block.Data.Txs) {
				return false
			}
			r.Block.Data.Txs[i] = c20Flip(r.Block.Data.Txs[i])
			return true
		}))
	}
	out = append(out,
		mk("Block.Data.Txs:append", c20Committed, func(r *ctypes.ResultBlock, _ *c20Chain) bool {
			r.Block.Data.Txs = append(r.Block.Data.Txs, types.Tx("set:evil=1"))
			return true
		}),
		mk("Block.Data.Txs:drop-last", c20Committed, func(r *ctypes.ResultBlock, _ *c20Chain) bool {
			if len(r.Block.Data.Txs) == 0 {
				return false
			}
			r.Block.Data.Txs = r.Block.Data.Txs[:len(r.Block.Data.Txs)-1]
			return true
		}),
		mk("Block.Data.Txs:swap-0-1", c20Committed, func(r *ctypes.ResultBlock, _ *c20Chain) bool {
			t := r.Block.Data.Txs
			if len(t) < 2 || bytes.Equal(t[0], t[1]) {
				return false
			}
			t[0], t[1] = t[1], t[0]
			return true
		}),
		mk("Block.Evidence:append", c20Committed, func(r *ctypes.ResultBlock, ch *c20Chain) bool {
			r.Block.Evidence.Evidence = append(r.Block.Evidence.Evidence, types.NewMockDuplicateVoteEvidence(1, ch.t0, ch.chainID))
			return true
		}),
		mk("BlockID.Hash", c20Committed, func(r *ctypes.ResultBlock, _ *c20Chain) bool { r.BlockID.Hash = c20Flip(r.BlockID.Hash); return true }),
		mk("BlockID.PartSetHeader.Total", c20Unbound, func(r *ctypes.ResultBlock, _ *c20Chain) bool { r.BlockID.PartSetHeader.Total++; return true }),
		mk("BlockID.PartSetHeader.Hash", c20Unbound, func(r *ctypes.ResultBlock, _ *c20Chain) bool {
			r.BlockID.PartSetHeader.Hash = c20Flip(r.BlockID.PartSetHeader.Hash)
			return true
		}),
		mk(":=genuine-neighbour-block", c20Other, func(r *ctypes.ResultBlock, ch *c20Chain) bool {
			h := r.Block.Height + 1
			if h > ch.tip {
				h = r.Block.Height - 1
			}
			if h < 1 {
				return false
			}
			nb, err := newC20Node(ch, nil).Block(nil, &h)
			if err != nil {
				return false
			}
			*r = *nb
			return true
		}),
	)
	// self-consistent forgeries: what a lying server would really send (every internal cross-check of the response holds)
	out = append(out,
		mk("Block.Header.AppHash&BlockID.Hash", c20Committed, func(r *ctypes.ResultBlock, _ *c20Chain) bool {
			r.Block.Header.AppHash = c20Flip(r.Block.Header.AppHash)
			r.BlockID.Hash = r.Block.Header.Hash()
			return true
		}),
		mk("Block.Data.Txs[0]&DataHash&BlockID.Hash", c20Committed, func(r *ctypes.ResultBlock, _ *c20Chain) bool {
			if len(r.Block.Data.Txs) == 0 {
				return false
			}
			r.Block.Data.Txs[0] = types.Tx("set:owner=mallory")
			r.Block.Header.DataHash = r.Block.Data.Txs.Hash()
			r.BlockID.Hash = r.Block.Header.Hash()
			return true
		}),
		mk("Block.Data.Txs:append&DataHash&BlockID.Hash", c20Committed, func(r *ctypes.ResultBlock, _ *c20Chain) bool {
			r.Block.Data.Txs = append(r.Block.Data.Txs, types.Tx("set:owner=mallory"))
			r.Block.Header.DataHash = r.Block.Data.Txs.Hash()
			r.BlockID.Hash = r.Block.Header.Hash()
			return true
		}),
	)
	// LastCommit.{Height,Round,BlockID} are not covered by LastCommitHash (only the signature list is)
	out = append(out, c20CommitMuts("Block.LastCommit.", func(res interface{}) *types.Commit {
		if b := blk(res); b != nil && b.Height > 1 {
			return b.LastCommit
		}
		return nil
	}, c20Unbound)...)
	return out
}

func c20BlockchainMuts() []c20Mut {
	out := []c20Mut{}
	for j := 0; j < 4; j++ {
		j := j
		meta := func(res interface{}) *types.BlockMeta {
			r := res.(*ctypes.ResultBlockchainInfo)
			if j >= len(r.BlockMetas) {
				return nil
			}
			return r.BlockMetas[j]
		}
		p := fmt.Sprintf("BlockMetas[%d].", j)
		out = append(out, c20HeaderMuts(p+"Header.", func(res interface{}) *types.Header {
			if m := meta(res); m != nil {
				return &m.Header
			}
			return nil
		})...)
		mk := func(name string, class int, f func(m *types.BlockMeta)) c20Mut {
			return c20Mut{Name: p + name, Class: class, F: func(res interface{}, _ *c20Chain) bool {
				m := meta(res)
				if m == nil {
					return false
				}
				f(m)
				return true
			}}
		}
		out = append(out,
			mk("BlockID.Hash", c20Committed, func(m *types.BlockMeta) { m.BlockID.Hash = c20Flip(m.BlockID.Hash) }),
			mk("BlockID.PartSetHeader.Total", c20Unbound, func(m *types.BlockMeta) { m.BlockID.PartSetHeader.Total++ }),
			mk("BlockID.PartSetHeader.Hash", c20Unbound, func(m *types.BlockMeta) { m.BlockID.PartSetHeader.Hash = c20Flip(m.BlockID.PartSetHeader.Hash) }),
			mk("Header.AppHash&BlockID.Hash", c20Committed, func(m *types.BlockMeta) {
				m.Header.AppHash = c20Flip(m.Header.AppHash)
				m.BlockID.Hash = m.Header.Hash()
			}),
			mk("BlockSize", c20Unverifiable, func(m *types.BlockMeta) { m.BlockSize++ }),
			mk("NumTxs", c20Unverifiable, func(m *types.BlockMeta) { m.NumTxs++ }),
		)
	}
	out = append(out,
		c20Mut{Name: "LastHeight", Class: c20Unverifiable, F: func(res interface{}, _ *c20Chain) bool {
			res.(*ctypes.ResultBlockchainInfo).LastHeight++
			return true
		}},
		// a page that reaches the chain's first block: the first header names no predecessor (zero LastBlockID); a fabricated meta with
		// a zero block id and a header that hashes to nothing (no validators hash) "links" to it hash-wise
		c20Mut{Name: "BlockMetas:append-fabricated-behind-first-block", Class: c20Committed, F: func(res interface{}, _ *c20Chain) bool {
			r := res.(*ctypes.ResultBlockchainInfo)
			if len(r.BlockMetas) == 0 {
				return false
			}
			last := r.BlockMetas[len(r.BlockMetas)-1]
			if !last.Header.LastBlockID.IsZero() {
				return false
			}
			fab := &types.BlockMeta{BlockSize: 1, NumTxs: 1000000, Header: types.Header{Version: last.Header.Version, ChainID: last.Header.ChainID,
				Height: last.Header.Height + 1, Time: last.Header.Time, AppHash: []byte("fabricated-app-hash")}}
			r.BlockMetas = append(r.BlockMetas, fab)
			return true
		}},
		c20Mut{Name: "BlockMetas:drop-first", Class: c20Other, F: func(res interface{}, _ *c20Chain) bool {
			r := res.(*ctypes.ResultBlockchainInfo)
			if len(r.BlockMetas) < 2 {
				return false
			}
			r.BlockMetas = r.BlockMetas[1:]
			return true
		}},
	)
	return out
}

// falsifications of the /commit response the light client's provider pulls
func c20CommitRPCMuts() []c20Mut {
	out := c20HeaderMuts("SignedHeader.Header.", func(res interface{}) *types.Header { return res.(*ctypes.ResultCommit).Header })
	out = append(out, c20CommitMuts("SignedHeader.Commit.", func(res interface{}) *types.Commit { return res.(*ctypes.ResultCommit).Commit }, c20Committed)...)
	// a self-consistent forgery: header field changed and the commit's block id re-pointed at the forged header
	// (the signatures, which the server cannot forge, stay those of the genuine header)
	for _, f := range []struct {
		n string
		f func(h *types.Header)
	}{{"AppHash", func(h *types.Header) { h.AppHash = c20Flip(h.AppHash) }}, {"DataHash", func(h *types.Header) { h.DataHash = c20Flip(h.DataHash) }}} {
		f := f
		out = append(out, c20Mut{Name: "SignedHeader.Header." + f.n + "&Commit.BlockID.Hash", Class: c20Committed, F: func(res interface{}, _ *c20Chain) bool {
			r := res.(*ctypes.ResultCommit)
			if r.Header == nil || r.Commit == nil {
				return false
			}
			f.f(r.Header)
			r.Commit.BlockID.Hash = r.Header.Hash()
			return true
		}})
	}
	out = append(out, c20Mut{Name: "CanonicalCommit", Class: c20Unverifiable, F: func(res interface{}, _ *c20Chain) bool {
		r := res.(*ctypes.ResultCommit)
		r.CanonicalCommit = !r.CanonicalCommit
		return true
	}})
	return out
}

// falsifications of the /validators response the light client's provider pulls
func c20ValidatorsRPCMuts() []c20Mut {
	mk := func(name string, class int, f func(r *ctypes.ResultValidators, ch *c20Chain) bool) c20Mut {
		return c20Mut{Name: name, Class: class, F: func(res interface{}, ch *c20Chain) bool { return f(res.(*ctypes.ResultValidators), ch) }}
	}
	out := []c20Mut{
		mk("BlockHeight", c20Committed, func(r *ctypes.ResultValidators, _ *c20Chain) bool { r.BlockHeight++; return true }),
		mk("Count", c20Committed, func(r *ctypes.ResultValidators, _ *c20Chain) bool { r.Count++; return true }),
		mk("Total", c20Committed, func(r *ctypes.ResultValidators, _ *c20Chain) bool { r.Total++; return true }),
		mk("Validators:drop-last", c20Committed, func(r *ctypes.ResultValidators, _ *c20Chain) bool {
			if len(r.Validators) < 2 {
				return false
			}
			r.Validators = r.Validators[:len(r.Validators)-1]
			r.Count--
			r.Total--
			return true
		}),
		mk("Validators:append", c20Committed, func(r *ctypes.ResultValidators, ch *c20Chain) bool {
			r.Validators = append(r.Validators, types.NewValidator(ch.keyPool[5].PubKey(), 1))
			r.Count++
			r.Total++
			return true
		}),
		mk("Validators:swap-0-1", c20Committed, func(r *ctypes.ResultValidators, _ *c20Chain) bool {
			if len(r.Validators) < 2 {
				return false
			}
			r.Validators[0], r.Validators[1] = r.Validators[1], r.Validators[0]
			return true
		}),
	}
	for i := 0; i < 5; i++ {
		i := i
		v := func(name string, class int, f func(v *types.Validator, ch *c20Chain)) c20Mut {
			return mk(fmt.Sprintf("Validators[%d].%s", i, name), class, func(r *ctypes.ResultValidators, ch *c20Chain) bool {
				if i >= len(r.Validators) {
					return false
				}
				f(r.Validators[i], ch)
				return true
			})
		}
		out = append(out,
			v("Address", c20Unbound, func(v *types.Validator, _ *c20Chain) { v.Address = c20Flip(v.Address) }),
			v("PubKey", c20Committed, func(v *types.Validator, ch *c20Chain) { v.PubKey = ch.keyPool[5].PubKey() }),
			v("VotingPower", c20Committed, func(v *types.Validator, _ *c20Chain) { v.VotingPower++ }),
			v("ProposerPriority", c20Unverifiable, func(v *types.Validator, _ *c20Chain) { v.ProposerPriority++ }),
		)
	}
	return out
}

func c20ParamsMuts() []c20Mut {
	mk := func(name string, class int, f func(r *ctypes.ResultConsensusParams)) c20Mut {
		return c20Mut{Name: name, Class: class, F: func(res interface{}, _ *c20Chain) bool { f(res.(*ctypes.ResultConsensusParams)); return true }}
	}
	return []c20Mut{
		mk("BlockHeight+1", c20Committed, func(r *ctypes.ResultConsensusParams) { r.BlockHeight++ }),
		mk("BlockHeight-1", c20Committed, func(r *ctypes.ResultConsensusParams) { r.BlockHeight-- }),
		mk("ConsensusParams.Block.MaxBytes", c20Committed, func(r *ctypes.ResultConsensusParams) { r.ConsensusParams.Block.MaxBytes++ }),
		mk("ConsensusParams.Block.MaxGas", c20Committed, func(r *ctypes.ResultConsensusParams) { r.ConsensusParams.Block.MaxGas++ }),
		mk("ConsensusParams.Block.TimeIotaMs", c20Unverifiable, func(r *ctypes.ResultConsensusParams) { r.ConsensusParams.Block.TimeIotaMs++ }),
		mk("ConsensusParams.Evidence.MaxAgeNumBlocks", c20Unverifiable, func(r *ctypes.ResultConsensusParams) { r.ConsensusParams.Evidence.MaxAgeNumBlocks++ }),
		mk("ConsensusParams.Evidence.MaxAgeDuration", c20Unverifiable, func(r *ctypes.ResultConsensusParams) { r.ConsensusParams.Evidence.MaxAgeDuration++ }),
		mk("ConsensusParams.Evidence.MaxBytes", c20Unverifiable, func(r *ctypes.ResultConsensusParams) { r.ConsensusParams.Evidence.MaxBytes++ }),
		mk("ConsensusParams.Validator.PubKeyTypes", c20Unverifiable, func(r *ctypes.ResultConsensusParams) {
			r.ConsensusParams.Validator.PubKeyTypes = []string{types.ABCIPubKeyTypeSecp256k1}
		}),
		mk("ConsensusParams.Version.AppVersion", c20Unverifiable, func(r *ctypes.ResultConsensusParams) { r.ConsensusParams.Version.AppVersion++ }),
		// the genuine (BlockHeight, params) pair of another height, chosen across the params change when there is one
		{Name: ":=genuine-params-of-another-height", Class: c20Other, F: func(res interface{}, ch *c20Chain) bool {
			r := res.(*ctypes.ResultConsensusParams)
			h := ch.tip
			if r.BlockHeight >= ch.tip {
				h = 1
			}
			o, err := newC20Node(ch, nil).ConsensusParams(nil, &h)
			if err != nil {
				return false
			}
			*r = *o
			return true
		}},
	}
}

func c20TxMuts() []c20Mut {
	mk := func(name string, class int, f func(r *ctypes.ResultTx, ch *c20Chain) bool) c20Mut {
		return c20Mut{Name: name, Class: class, F: func(res interface{}, ch *c20Chain) bool { return f(res.(*ctypes.ResultTx), ch) }}
	}
	sibling := func(r *ctypes.ResultTx, ch *c20Chain) (int, bool) {
		txs := ch.blocks[r.Height].Data.Txs
		for i := range txs {
			if !bytes.Equal(txs[i], r.Tx) {
				return i, true
			}
		}
		return 0, false
	}
	return []c20Mut{
		mk("Tx:=forged", c20Committed, func(r *ctypes.ResultTx, _ *c20Chain) bool { r.Tx = types.Tx("set:owner=mallory"); return true }),
		mk("Hash", c20Committed, func(r *ctypes.ResultTx, _ *c20Chain) bool { r.Hash = c20Flip(r.Hash); return true }),
		mk("Height+1", c20Committed, func(r *ctypes.ResultTx, _ *c20Chain) bool { r.Height++; return true }),
		mk("Height-1", c20Committed, func(r *ctypes.ResultTx, _ *c20Chain) bool { r.Height--; return true }),
		mk("Index", c20Committed, func(r *ctypes.ResultTx, _ *c20Chain) bool { r.Index++; return true }),
		mk("Tx:flip", c20Committed, func(r *ctypes.ResultTx, _ *c20Chain) bool { r.Tx = c20Flip(r.Tx); return true }),
		mk("Tx:=sibling", c20Committed, func(r *ctypes.ResultTx, ch *c20Chain) bool {
			i, ok := sibling(r, ch)
			if !ok {
				return false
			}
			r.Tx = ch.blocks[r.Height].Data.Txs[i]
			return true
		}),
		mk("Proof:=sibling's", c20Committed, func(r *ctypes.ResultTx, ch *c20Chain) bool {
			i, ok := sibling(r, ch)
			if !ok {
				return false
			}
			r.Proof = ch.blocks[r.Height].Data.Txs.Proof(i)
			return true
		}),
		mk("Tx&Hash&Proof:=self-consistent-forgery", c20Committed, func(r *ctypes.ResultTx, _ *c20Chain) bool {
			forged := types.Txs{types.Tx("set:owner=mallory")}
			r.Tx, r.Hash, r.Index, r.Proof = forged[0], forged[0].Hash(), 0, forged.Proof(0)
			return true
		}),
		mk("Proof.RootHash", c20Committed, func(r *ctypes.ResultTx, _ *c20Chain) bool { r.Proof.RootHash = c20Flip(r.Proof.RootHash); return true }),
		mk("Proof.Data", c20Committed, func(r *ctypes.ResultTx, _ *c20Chain) bool { r.Proof.Data = c20Flip(r.Proof.Data); return true }),
		mk("Proof.Proof.Total", c20Unbound, func(r *ctypes.ResultTx, _ *c20Chain) bool { r.Proof.Proof.Total++; return true }),
		mk("Proof.Proof.Index", c20Committed, func(r *ctypes.ResultTx, _ *c20Chain) bool { r.Proof.Proof.Index++; return true }),
		mk("Proof.Proof.LeafHash", c20Committed, func(r *ctypes.ResultTx, _ *c20Chain) bool {
			r.Proof.Proof.LeafHash = c20Flip(r.Proof.Proof.LeafHash)
			return true
		}),
		mk("Proof.Proof.Aunts[0]", c20Committed, func(r *ctypes.ResultTx, _ *c20Chain) bool {
			if len(r.Proof.Proof.Aunts) == 0 {
				return false
			}
			r.Proof.Proof.Aunts[0] = c20Flip(r.Proof.Proof.Aunts[0])
			return true
		}),
		mk("Proof.Proof.Aunts:drop", c20Committed, func(r *ctypes.ResultTx, _ *c20Chain) bool {
			if len(r.Proof.Proof.Aunts) == 0 {
				return false
			}
			r.Proof.Proof.Aunts = r.Proof.Proof.Aunts[1:]
			return true
		}),
		mk("TxResult.Code", c20Unverifiable, func(r *ctypes.ResultTx, _ *c20Chain) bool { r.TxResult.Code++; return true }),
		mk("TxResult.Data", c20Unverifiable, func(r *ctypes.ResultTx, _ *c20Chain) bool { r.TxResult.Data = c20Flip(r.TxResult.Data); return true }),
		mk("TxResult.Log", c20Unverifiable, func(r *ctypes.ResultTx, _ *c20Chain) bool { r.TxResult.Log += "x"; return true }),
		mk("TxResult.GasUsed", c20Unverifiable, func(r *ctypes.ResultTx, _ *c20Chain) bool { r.TxResult.GasUsed++; return true }),
		mk("TxResult.Events", c20Unverifiable, func(r *ctypes.ResultTx, _ *c20Chain) bool {
			r.TxResult.Events = append(r.TxResult.Events, abci.Event{Type: "forged"})
			return true
		}),
	}
}

func c20ResultsMuts() []c20Mut {
	mk := func(name string, class int, f func(r *ctypes.ResultBlockResults) bool) c20Mut {
		return c20Mut{Name: name, Class: class, F: func(res interface{}, _ *c20Chain) bool { return f(res.(*ctypes.ResultBlockResults)) }}
	}
	out := []c20Mut{
		mk("Height", c20Committed, func(r *ctypes.ResultBlockResults) bool { r.Height++; return true }),
		mk("TxsResults:append", c20Committed, func(r *ctypes.ResultBlockResults) bool {
			r.TxsResults = append(r.TxsResults, &abci.ResponseDeliverTx{})
			return true
		}),
		mk("TxsResults:drop-last", c20Committed, func(r *ctypes.ResultBlockResults) bool {
			if len(r.TxsResults) == 0 {
				return false
			}
			r.TxsResults = r.TxsResults[:len(r.TxsResults)-1]
			return true
		}),
		mk("BeginBlockEvents", c20Unverifiable, func(r *ctypes.ResultBlockResults) bool {
			r.BeginBlockEvents = append(r.BeginBlockEvents, abci.Event{Type: "forged"})
			return true
		}),
		mk("EndBlockEvents", c20Unverifiable, func(r *ctypes.ResultBlockResults) bool {
			r.EndBlockEvents = append(r.EndBlockEvents, abci.Event{Type: "forged"})
			return true
		}),
		mk("ValidatorUpdates", c20Unverifiable, func(r *ctypes.ResultBlockResults) bool {
			r.ValidatorUpdates = append(r.ValidatorUpdates, abci.ValidatorUpdate{Power: 1})
			return true
		}),
		mk("ConsensusParamUpdates", c20Unverifiable, func(r *ctypes.ResultBlockResults) bool {
			r.ConsensusParamUpdates = &abci.ConsensusParams{Block: &abci.BlockParams{MaxBytes: 1, MaxGas: 1}}
			return true
		}),
	}
	for i := 0; i < 3; i++ {
		i := i
		t := func(name string, class int, f func(d *abci.ResponseDeliverTx)) c20Mut {
			return mk(fmt.Sprintf("TxsResults[%d].%s", i, name), class, func(r *ctypes.ResultBlockResults) bool {
				if i >= len(r.TxsResults) || r.TxsResults[i] == nil {
					return false
				}
				f(r.TxsResults[i])
				return true
			})
		}
		out = append(out,
			t("Code", c20Committed, func(d *abci.ResponseDeliverTx) { d.Code++ }),
			t("Data", c20Committed, func(d *abci.ResponseDeliverTx) { d.Data = c20Flip(d.Data) }),
			t("GasWanted", c20Committed, func(d *abci.ResponseDeliverTx) { d.GasWanted++ }),
			t("GasUsed", c20Committed, func(d *abci.ResponseDeliverTx) { d.GasUsed++ }),
			t("Log", c20Unverifiable, func(d *abci.ResponseDeliverTx) { d.Log += "x" }),
			t("Info", c20Unverifiable, func(d *abci.ResponseDeliverTx) { d.Info += "x" }),
			t("Codespace", c20Unverifiable, func(d *abci.ResponseDeliverTx) { d.Codespace += "x" }),
			t("Events", c20Unverifiable, func(d *abci.ResponseDeliverTx) { d.Events = append(d.Events, abci.Event{Type: "forged"}) }),
		)
	}
	return out
}

// c20OtherStoreMut: replace value and proof by what the first other store (in name order) that answers the requested
// key differently (other value, or present vs absent) holds at the response height. Not applicable when no store
// does. keyless: the last (store-level) operator is re-encoded as the key-less c20StepOp.
func c20OtherStoreMut(name string, keyless bool) c20Mut {
	return c20Mut{Name: name, Class: c20Committed, F: func(res interface{}, ch *c20Chain) bool {
		q := &res.(*ctypes.ResultABCIQuery).Response
		snap := ch.app.history[q.Height]
		if snap == nil || q.ProofOps == nil || len(q.ProofOps.Ops) != 2 {
			return false
		}
		store, key := string(q.ProofOps.Ops[1].Key), q.ProofOps.Ops[0].Key
		own, ownHas := snap.stores[store][string(key)]
		for _, other := range snap.storeNames() {
			v, has := snap.stores[other][string(key)]
			if other == store || (has == ownHas && v == own) {
				continue
			}
			q.Value = nil
			if has {
				q.Value = []byte(v)
			}
			ops := c20StoreProof(snap, other, key)
			if keyless {
				ops[1] = c20AsStepOp(ops[1])
			}
			q.ProofOps = &tmcrypto.ProofOps{Ops: ops}
			return true
		}
		return false
	}}
}

func c20QueryMuts() []c20Mut {
	mk := func(name string, class int, f func(q *abci.ResponseQuery) bool) c20Mut {
		return c20Mut{Name: name, Class: class, F: func(res interface{}, _ *c20Chain) bool { return f(&res.(*ctypes.ResultABCIQuery).Response) }}
	}
	out := []c20Mut{
		mk("Response.Key", c20Committed, func(q *abci.ResponseQuery) bool { q.Key = append(append([]byte{}, q.Key...), 'x'); return true }),
		mk("Response.Value:flip", c20Committed, func(q *abci.ResponseQuery) bool {
			if q.Value == nil {
				return false
			}
			q.Value = c20Flip(q.Value)
			return true
		}),
		mk("Response.Value:=nil", c20Committed, func(q *abci.ResponseQuery) bool {
			if q.Value == nil {
				return false
			}
			q.Value = nil
			return true
		}),
		mk("Response.Value:=forged", c20Committed, func(q *abci.ResponseQuery) bool { q.Value = []byte("forged"); return true }),
		mk("Response.Value&ProofOps:=self-consistent-forgery", c20Committed, func(q *abci.ResponseQuery) bool {
			if q.ProofOps == nil || len(q.ProofOps.Ops) != 2 || q.Value == nil {
				return false
			}
			q.Value = []byte("forged")
			root1, p1 := merkle.ProofsFromByteSlices([][]byte{c20KVLeaf(q.Key, q.Value)})
			_, p2 := merkle.ProofsFromByteSlices([][]byte{c20KVLeaf(q.ProofOps.Ops[1].Key, root1)})
			q.ProofOps.Ops[0] = merkle.NewValueOp(q.Key, p1[0]).ProofOp()
			q.ProofOps.Ops[1] = merkle.NewValueOp(q.ProofOps.Ops[1].Key, p2[0]).ProofOp()
			return true
		}),
		// the genuine answer (and genuine hash chain to the trusted AppHash) of ANOTHER store that answers the
		// same key differently: with the store-level operator as the application serves it (keyed with the other
		// store's name), and with the store level served as a key-less step, which leaves the store element of
		// the key path unconsumed.
		c20OtherStoreMut("Response.Value&ProofOps:=other-store's-answer", false),
		c20OtherStoreMut("Response.Value&ProofOps:=other-store's-answer,store-level-op-key-less", true),
		mk("Response.Height+1", c20Committed, func(q *abci.ResponseQuery) bool { q.Height++; return true }),
		mk("Response.Height-1", c20Committed, func(q *abci.ResponseQuery) bool { q.Height--; return true }),
		mk("Response.ProofOps:drop-first", c20Committed, func(q *abci.ResponseQuery) bool {
			if q.ProofOps == nil || len(q.ProofOps.Ops) < 2 {
				return false
			}
			q.ProofOps.Ops = q.ProofOps.Ops[1:]
			return true
		}),
		mk("Response.ProofOps:swap", c20Committed, func(q *abci.ResponseQuery) bool {
			if q.ProofOps == nil || len(q.ProofOps.Ops) < 2 {
				return false
			}
			q.ProofOps.Ops[0], q.ProofOps.Ops[1] = q.ProofOps.Ops[1], q.ProofOps.Ops[0]
			return true
		}),
		mk("Response.Log", c20Unverifiable, func(q *abci.ResponseQuery) bool { q.Log += "x"; return true }),
		mk("Response.Info", c20Unverifiable, func(q *abci.ResponseQuery) bool { q.Info += "x"; return true }),
		mk("Response.Index", c20Unverifiable, func(q *abci.ResponseQuery) bool { q.Index++; return true }),
		mk("Response.Codespace", c20Unverifiable, func(q *abci.ResponseQuery) bool { q.Codespace += "x"; return true }),
	}
	for i := 0; i < 2; i++ {
		i := i
		o := func(name string, f func(p *tmcrypto.ProofOp)) c20Mut {
			return mk(fmt.Sprintf("Response.ProofOps.Ops[%d].%s", i, name), c20Committed, func(q *abci.ResponseQuery) bool {
				if q.ProofOps == nil || i >= len(q.ProofOps.Ops) {
					return false
				}
				f(&q.ProofOps.Ops[i])
				return true
			})
		}
		out = append(out,
			o("Type", func(p *tmcrypto.ProofOp) { p.Type += "x" }),
			o("Key", func(p *tmcrypto.ProofOp) { p.Key = append(append([]byte{}, p.Key...), 'x') }),
			o("Data", func(p *tmcrypto.ProofOp) {
				d := append([]byte{}, p.Data...)
				d[len(d)-3] ^= 0x01 // inside the last hash of the encoded proof (value op) / pair list (absence op)
				p.Data = d
			}),
		)
	}
	return out
}

// c20MutsFor: RPC method name (as the node sees it) -> falsifications
func c20MutsFor(method string) []c20Mut {
	switch method {
	case "block", "block_by_hash":
		return c20BlockMuts()
	case "blockchain":
		return c20BlockchainMuts()
	case "commit":
		return c20CommitRPCMuts()
	case "validators":
		return c20ValidatorsRPCMuts()
	case "consensus_params":
		return c20ParamsMuts()
	case "tx":
		return c20TxMuts()
	case "block_results":
		return c20ResultsMuts()
	case "abci_query":
		return c20QueryMuts()
	}
	return nil
}
