package rpc

// C20 — shared fixture: a canonical chain built with the REAL state.BlockExecutor + store.BlockStore +
// sm.Store + kv tx/block indexers (fed by the real txindex.IndexerService over the real EventBus) on
// MemDB, driving a small harness ABCI application whose state is a two-level merkle store provable
// with merkle.ValueOp. The chain is served by c20Node, an rpcclient.Client whose every answer comes
// from the real rpc/core handlers (core.SetEnvironment with the real stores) and is passed through
// the same tmjson encoding the JSON-RPC server/client pair applies. "Honest" therefore means: what a
// full node of this version really serves.
//
// The builder keeps its own record of everything it produced (blocks, the app's own responses,
// validator sets, params, store snapshots). Oracles compare against that record, not against the
// stores the handlers read.

import (
	"bytes"
	"context"
	"crypto/sha256"
	"encoding/binary"
	"encoding/json"
	"errors"
	"fmt"
	"net/url"
	"sort"
	"strconv"
	"strings"
	"sync"
	"sync/atomic"
	"time"

	dbm "github.com/tendermint/tm-db"

	abci "github.com/tendermint/tendermint/abci/types"
	"github.com/tendermint/tendermint/consensus"
	"github.com/tendermint/tendermint/crypto"
	"github.com/tendermint/tendermint/crypto/ed25519"
	cryptoenc "github.com/tendermint/tendermint/crypto/encoding"
	"github.com/tendermint/tendermint/crypto/merkle"
	tmbytes "github.com/tendermint/tendermint/libs/bytes"
	tmjson "github.com/tendermint/tendermint/libs/json"
	"github.com/tendermint/tendermint/libs/log"
	mempoolmock "github.com/tendermint/tendermint/mempool/mock"
	"github.com/tendermint/tendermint/p2p"
	tmcrypto "github.com/tendermint/tendermint/proto/tendermint/crypto"
	tmproto "github.com/tendermint/tendermint/proto/tendermint/types"
	"github.com/tendermint/tendermint/proxy"
	rpcclient "github.com/tendermint/tendermint/rpc/client"
	"github.com/tendermint/tendermint/rpc/core"
	ctypes "github.com/tendermint/tendermint/rpc/core/types"
	rpctypes "github.com/tendermint/tendermint/rpc/jsonrpc/types"
	sm "github.com/tendermint/tendermint/state"
	blockidxkv "github.com/tendermint/tendermint/state/indexer/block/kv"
	"github.com/tendermint/tendermint/state/txindex"
	txidxkv "github.com/tendermint/tendermint/state/txindex/kv"
	"github.com/tendermint/tendermint/store"
	"github.com/tendermint/tendermint/types"
)

// ---------------------------------------------------------------------------------------------
// application

const c20AbsenceOpType = "c20:absent"

// c20KVLeaf is the leaf content merkle.ValueOp expects: uvarint-prefixed key, uvarint-prefixed sha256(value).
func c20KVLeaf(key, value []byte) []byte {
	vh := sha256.Sum256(value)
	return c20KVLeafHashed(key, vh[:])
}

func c20KVLeafHashed(key, vhash []byte) []byte {
	var buf [binary.MaxVarintLen64]byte
	out := []byte{}
	n := binary.PutUvarint(buf[:], uint64(len(key)))
	out = append(out, buf[:n]...)
	out = append(out, key...)
	n = binary.PutUvarint(buf[:], uint64(len(vhash)))
	out = append(out, buf[:n]...)
	out = append(out, vhash...)
	return out
}

type c20KV map[string]string

func (m c20KV) keys() []string {
	ks := make([]string, 0, len(m))
	for k := range m {
		ks = append(ks, k)
	}
	sort.Strings(ks)
	return ks
}

func (m c20KV) leaves() [][]byte {
	out := [][]byte{}
	for _, k := range m.keys() {
		out = append(out, c20KVLeaf([]byte(k), []byte(m[k])))
	}
	return out
}

func (m c20KV) root() []byte { return merkle.HashFromByteSlices(m.leaves()) }

func (m c20KV) copy() c20KV {
	o := c20KV{}
	for k, v := range m {
		o[k] = v
	}
	return o
}

// c20Snapshot is the committed application state after one height.
type c20Snapshot struct {
	stores  map[string]c20KV
	appHash []byte
}

func c20MakeSnapshot(stores map[string]c20KV) *c20Snapshot {
	s := &c20Snapshot{stores: map[string]c20KV{}}
	for n, m := range stores {
		s.stores[n] = m.copy()
	}
	s.appHash = merkle.HashFromByteSlices(s.topLeaves())
	return s
}

func (s *c20Snapshot) storeNames() []string {
	ns := []string{}
	for n := range s.stores {
		ns = append(ns, n)
	}
	sort.Strings(ns)
	return ns
}

func (s *c20Snapshot) topLeaves() [][]byte {
	out := [][]byte{}
	for _, n := range s.storeNames() {
		out = append(out, c20KVLeaf([]byte(n), s.stores[n].root()))
	}
	return out
}

// c20AbsenceOp proves that key is not in a (small) store by disclosing the store's full sorted list of
// (key, sha256(value)) pairs; Run takes no argument and outputs the store root. Sound for any store size,
// practical only for small ones — which is all the harness needs.
type c20AbsenceOp struct {
	key   []byte
	Pairs [][2][]byte
}

func (op c20AbsenceOp) GetKey() []byte { return op.key }

func (op c20AbsenceOp) Run(args [][]byte) ([][]byte, error) {
	if len(args) != 0 {
		return nil, fmt.Errorf("absence op expects no argument, got %d", len(args))
	}
	leaves := [][]byte{}
	var prev []byte
	for i, p := range op.Pairs {
		if bytes.Equal(p[0], op.key) {
			return nil, errors.New("key is present")
		}
		if i > 0 && bytes.Compare(prev, p[0]) >= 0 {
			return nil, errors.New("pairs not strictly sorted")
		}
		prev = p[0]
		leaves = append(leaves, c20KVLeafHashed(p[0], p[1]))
	}
	return [][]byte{merkle.HashFromByteSlices(leaves)}, nil
}

func (op c20AbsenceOp) ProofOp() tmcrypto.ProofOp {
	bz, err := json.Marshal(op.Pairs)
	if err != nil {
		panic(err)
	}
	return tmcrypto.ProofOp{Type: c20AbsenceOpType, Key: op.key, Data: bz}
}

func c20AbsenceOpDecoder(pop tmcrypto.ProofOp) (merkle.ProofOperator, error) {
	if pop.Type != c20AbsenceOpType {
		return nil, fmt.Errorf("unexpected op type %q", pop.Type)
	}
	op := c20AbsenceOp{key: pop.Key}
	if err := json.Unmarshal(pop.Data, &op.Pairs); err != nil {
		return nil, err
	}
	return op, nil
}

// c20StoreProof: the operator chain from (store name, key) to the snapshot's AppHash, as the application serves it:
// a merkle.ValueOp (key present) or the absence op (key absent) inside the store, then a merkle.ValueOp for the
// store's entry in the top-level tree.
func c20StoreProof(snap *c20Snapshot, name string, key []byte) []tmcrypto.ProofOp {
	st := snap.stores[name]
	ops := []tmcrypto.ProofOp{}
	if _, present := st[string(key)]; present {
		_, proofs := merkle.ProofsFromByteSlices(st.leaves())
		idx := sort.SearchStrings(st.keys(), string(key))
		ops = append(ops, merkle.NewValueOp(key, proofs[idx]).ProofOp())
	} else {
		op := c20AbsenceOp{key: key}
		for _, k := range st.keys() {
			vh := sha256.Sum256([]byte(st[k]))
			op.Pairs = append(op.Pairs, [2][]byte{[]byte(k), vh[:]})
		}
		ops = append(ops, op.ProofOp())
	}
	_, tproofs := merkle.ProofsFromByteSlices(snap.topLeaves())
	ti := sort.SearchStrings(snap.storeNames(), name)
	ops = append(ops, merkle.NewValueOp([]byte(name), tproofs[ti]).ProofOp())
	return ops
}

// c20StepOp is a hashing step that is not bound to an element of the key path (GetKey() == nil; the proof-operator
// format allows these, cf. the key-less operator in crypto/merkle's own TestProofOperators): it runs the
// merkle.ValueOp encoded in its Data but consumes no key. The application never serves it; it is registered with
// the verifying client so that a lying server may use it.
const c20StepOpType = "c20:step"

type c20StepOp struct {
	inner merkle.ProofOperator
	raw   tmcrypto.ProofOp
}

func (s c20StepOp) Run(args [][]byte) ([][]byte, error) { return s.inner.Run(args) }
func (s c20StepOp) GetKey() []byte                       { return nil }
func (s c20StepOp) ProofOp() tmcrypto.ProofOp            { return s.raw }

// c20AsStepOp wraps a merkle.ValueOp's wire form into the key-less step's wire form.
func c20AsStepOp(valueOp tmcrypto.ProofOp) tmcrypto.ProofOp {
	bz, err := valueOp.Marshal()
	if err != nil {
		panic(err)
	}
	return tmcrypto.ProofOp{Type: c20StepOpType, Data: bz}
}

func c20StepOpDecoder(pop tmcrypto.ProofOp) (merkle.ProofOperator, error) {
	if pop.Type != c20StepOpType {
		return nil, fmt.Errorf("unexpected op type %q", pop.Type)
	}
	var innerPop tmcrypto.ProofOp
	if err := innerPop.Unmarshal(pop.Data); err != nil {
		return nil, err
	}
	inner, err := merkle.ValueOpDecoder(innerPop)
	if err != nil {
		return nil, err
	}
	return c20StepOp{inner: inner, raw: pop}, nil
}

// c20AppRecord is what the application itself answered for one block — the ground truth for BlockResults.
type c20AppRecord struct {
	Begin    abci.ResponseBeginBlock
	Delivers []*abci.ResponseDeliverTx
	End      abci.ResponseEndBlock
}

type c20App struct {
	abci.BaseApplication
	keyPool []crypto.PrivKey
	events  bool // emit begin/end-block and tx events

	stores   map[string]c20KV
	height   int64
	history  map[int64]*c20Snapshot
	records  map[int64]*c20AppRecord
	cur      *c20AppRecord
	valUpd   []abci.ValidatorUpdate
	paramUpd *abci.ConsensusParams

	// absenceKeyAsPath: answer absence queries with Response.Key set to the url-encoded key path
	// ("/<store>/<key>") instead of the raw key. No real application does that; it is the only form
	// for which v0.34.24's light/rpc client can verify an absence proof (see notes/C20.md).
	absenceKeyAsPath bool
}

func newC20App(keyPool []crypto.PrivKey, events bool) *c20App {
	a := &c20App{keyPool: keyPool, events: events, history: map[int64]*c20Snapshot{}, records: map[int64]*c20AppRecord{}}
	a.stores = map[string]c20KV{"main": {}, "aux": {"version": "1", "zz": "top"}}
	a.history[0] = c20MakeSnapshot(a.stores)
	return a
}

func (a *c20App) InitChain(req abci.RequestInitChain) abci.ResponseInitChain {
	return abci.ResponseInitChain{AppHash: a.history[0].appHash}
}

func (a *c20App) BeginBlock(req abci.RequestBeginBlock) abci.ResponseBeginBlock {
	a.cur = &c20AppRecord{}
	a.valUpd, a.paramUpd = nil, nil
	h := req.Header.Height
	if a.events && h%3 == 0 {
		a.cur.Begin.Events = []abci.Event{{Type: "c20begin", Attributes: []abci.EventAttribute{
			{Key: []byte("h"), Value: []byte(strconv.FormatInt(h, 10)), Index: true}}}}
	}
	return a.cur.Begin
}

func (a *c20App) CheckTx(req abci.RequestCheckTx) abci.ResponseCheckTx {
	return abci.ResponseCheckTx{Code: abci.CodeTypeOK}
}

// tx grammar: set:k=v | del:k | val:<pool index>=<power> | par:<max bytes> | bad:<x> | nop:<x>
func (a *c20App) DeliverTx(req abci.RequestDeliverTx) abci.ResponseDeliverTx {
	tx := string(req.Tx)
	res := abci.ResponseDeliverTx{Code: abci.CodeTypeOK, GasWanted: 10, GasUsed: int64(len(tx))}
	i := strings.IndexByte(tx, ':')
	kind, arg := "", ""
	if i > 0 {
		kind, arg = tx[:i], tx[i+1:]
	}
	kv := strings.SplitN(arg, "=", 2)
	switch kind {
	case "set":
		if len(kv) != 2 || kv[1] == "" {
			res.Code, res.Log = 2, "malformed set"
			break
		}
		a.stores["main"][kv[0]] = kv[1]
		res.Data = []byte("set:" + kv[0])
		res.Log = "stored"
		if a.events {
			res.Events = []abci.Event{{Type: "c20tx", Attributes: []abci.EventAttribute{
				{Key: []byte("key"), Value: []byte(kv[0]), Index: true}, {Key: []byte("noindex"), Value: []byte("x")}}}}
		}
	case "del":
		delete(a.stores["main"], arg)
		res.Data = []byte("del:" + arg)
	case "val":
		idx, e1 := strconv.Atoi(kv[0])
		var pw int64
		var e2 error
		if len(kv) == 2 {
			pw, e2 = strconv.ParseInt(kv[1], 10, 64)
		}
		if e1 != nil || e2 != nil || len(kv) != 2 || idx < 0 || idx >= len(a.keyPool) {
			res.Code, res.Log = 3, "malformed val"
			break
		}
		pk, err := cryptoenc.PubKeyToProto(a.keyPool[idx].PubKey())
		if err != nil {
			panic(err)
		}
		a.valUpd = append(a.valUpd, abci.ValidatorUpdate{PubKey: pk, Power: pw})
		res.Data = []byte("val")
	case "par":
		mb, err := strconv.ParseInt(arg, 10, 64)
		if err != nil {
			res.Code, res.Log = 4, "malformed par"
			break
		}
		a.paramUpd = &abci.ConsensusParams{Block: &abci.BlockParams{MaxBytes: mb, MaxGas: 1000 + mb%7}}
	case "bad":
		res.Code, res.Log, res.Codespace, res.Info = 7, "rejected by application", "c20", "info"
		res.GasUsed = 1
	case "nop":
		res.Data = []byte{0x01}
	default:
		res.Code, res.Log = 1, "unknown tx kind"
	}
	cp := res
	a.cur.Delivers = append(a.cur.Delivers, &cp)
	return res
}

func (a *c20App) EndBlock(req abci.RequestEndBlock) abci.ResponseEndBlock {
	a.cur.End = abci.ResponseEndBlock{ValidatorUpdates: a.valUpd, ConsensusParamUpdates: a.paramUpd}
	if a.events && req.Height%4 == 0 {
		a.cur.End.Events = []abci.Event{{Type: "c20end", Attributes: []abci.EventAttribute{
			{Key: []byte("h"), Value: []byte(strconv.FormatInt(req.Height, 10)), Index: true}}}}
	}
	return a.cur.End
}

func (a *c20App) Commit() abci.ResponseCommit {
	a.height++
	s := c20MakeSnapshot(a.stores)
	a.history[a.height] = s
	a.records[a.height] = a.cur
	return abci.ResponseCommit{Data: s.appHash}
}

var c20QueryPath = func(storeName string) string { return "/store/" + storeName + "/key" }

func (a *c20App) Query(req abci.RequestQuery) abci.ResponseQuery {
	h := req.Height
	if h == 0 {
		h = a.height
	}
	snap, ok := a.history[h]
	if !ok || h < 1 {
		return abci.ResponseQuery{Code: 5, Log: "no state at that height"}
	}
	parts := strings.Split(req.Path, "/")
	if len(parts) != 4 || parts[0] != "" || parts[1] != "store" || parts[3] != "key" {
		return abci.ResponseQuery{Code: 6, Log: "bad path"}
	}
	name := parts[2]
	st, ok := snap.stores[name]
	if !ok {
		return abci.ResponseQuery{Code: 6, Log: "no such store"}
	}
	res := abci.ResponseQuery{Code: abci.CodeTypeOK, Key: req.Data, Height: h, Log: "ok"}
	v, present := st[string(req.Data)]
	if present {
		res.Value = []byte(v)
		res.Index = int64(sort.SearchStrings(st.keys(), string(req.Data)))
	} else if a.absenceKeyAsPath {
		res.Key = []byte("/" + url.PathEscape(name) + "/" + url.PathEscape(string(req.Data)))
	}
	if !req.Prove {
		return res
	}
	ops := c20StoreProof(snap, name, req.Data)
	res.ProofOps = &tmcrypto.ProofOps{Ops: ops}
	return res
}

// ---------------------------------------------------------------------------------------------
// chain

type c20ChainSpec struct {
	Name       string
	Events     bool
	Txs        [][]string    // Txs[i] = transactions of height i+1
	AbsentVote map[int64]int // height -> validator index whose precommit is missing from that height's commit
}

type c20Chain struct {
	spec     c20ChainSpec
	chainID  string
	keyPool  []crypto.PrivKey
	pvByAddr map[string]types.MockPV
	app      *c20App
	env      *core.Environment
	t0       time.Time
	tip      int64

	// ground truth, recorded by the builder
	blocks   map[int64]*types.Block
	blockIDs map[int64]types.BlockID
	seen     map[int64]*types.Commit
	vals     map[int64]*types.ValidatorSet // validator set that signs height h (h in 1..tip+1)
	params   map[int64]tmproto.ConsensusParams
	txAt     map[string][2]int64 // tx hash -> (height, index) of its LAST occurrence

	stops []func()

	wireMtx sync.Mutex
	wire    map[string][]byte // memoised wire encodings of handler results
	// vis != 0: the node has only got as far as height vis (the chain "grows" when a case raises it); see c20CapStore
	vis int64
}

func c20Must(err error) {
	if err != nil {
		panic(err)
	}
}

type c20Transport struct{}

func (c20Transport) Listeners() []string    { return nil }
func (c20Transport) IsListening() bool      { return false }
func (c20Transport) NodeInfo() p2p.NodeInfo { return p2p.DefaultNodeInfo{} }

// errC20Inconclusive: the fixture could not be brought up within a generous wait (never a violation).
var errC20Inconclusive = errors.New("fixture not ready")

func c20BuildChain(spec c20ChainSpec) (*c20Chain, error) {
	c := &c20Chain{spec: spec, chainID: "verif-c20-" + spec.Name, pvByAddr: map[string]types.MockPV{},
		blocks: map[int64]*types.Block{}, blockIDs: map[int64]types.BlockID{}, seen: map[int64]*types.Commit{},
		vals: map[int64]*types.ValidatorSet{}, params: map[int64]tmproto.ConsensusParams{}, txAt: map[string][2]int64{}, wire: map[string][]byte{}}
	for i := 0; i < 6; i++ {
		k := ed25519.GenPrivKeyFromSecret([]byte(fmt.Sprintf("verif-c20-key-%d", i)))
		c.keyPool = append(c.keyPool, k)
		c.pvByAddr[string(k.PubKey().Address())] = types.NewMockPVWithParams(k, false, false)
	}
	// block times: hours in the past, far inside any trusting period used and far from "now + drift"
	c.t0 = time.Now().Add(-3 * time.Hour).Truncate(time.Second).UTC()
	genVals := []types.GenesisValidator{}
	for i := 0; i < 3; i++ {
		genVals = append(genVals, types.GenesisValidator{Address: c.keyPool[i].PubKey().Address(), PubKey: c.keyPool[i].PubKey(),
			Power: 10, Name: fmt.Sprintf("v%d", i)})
	}
	c.app = newC20App(c.keyPool, spec.Events)
	gen := &types.GenesisDoc{ChainID: c.chainID, GenesisTime: c.t0, Validators: genVals, InitialHeight: 1,
		ConsensusParams: types.DefaultConsensusParams()}
	c20Must(gen.ValidateAndComplete())

	cc := proxy.NewLocalClientCreator(c.app)
	conns := proxy.NewAppConns(cc)
	conns.SetLogger(log.NewNopLogger())
	c20Must(conns.Start())
	c.stops = append(c.stops, func() { _ = conns.Stop() })

	ric, err := conns.Consensus().InitChainSync(abci.RequestInitChain{ChainId: c.chainID, Time: c.t0, InitialHeight: 1,
		ConsensusParams: types.TM2PB.ConsensusParams(gen.ConsensusParams)})
	c20Must(err)
	gen.AppHash = ric.AppHash
	state, err := sm.MakeGenesisState(gen)
	c20Must(err)

	stateStore := sm.NewStore(dbm.NewMemDB(), sm.StoreOptions{DiscardABCIResponses: false})
	c20Must(stateStore.Save(state))
	blockStore := store.NewBlockStore(dbm.NewMemDB())
	txIdx := txidxkv.NewTxIndex(dbm.NewMemDB())
	blkIdx := blockidxkv.New(dbm.NewMemDB())
	bus := types.NewEventBus()
	bus.SetLogger(log.NewNopLogger())
	c20Must(bus.Start())
	c.stops = append(c.stops, func() { _ = bus.Stop() })
	idxSvc := txindex.NewIndexerService(txIdx, blkIdx, bus, false)
	idxSvc.SetLogger(log.NewNopLogger())
	c20Must(idxSvc.Start())
	c.stops = append(c.stops, func() { _ = idxSvc.Stop() })

	exec := sm.NewBlockExecutor(stateStore, log.NewNopLogger(), conns.Consensus(), mempoolmock.Mempool{}, sm.EmptyEvidencePool{})
	exec.SetEventBus(bus)

	var lastCommit *types.Commit = types.NewCommit(0, 0, types.BlockID{}, nil)
	for i, txs := range spec.Txs {
		h := int64(i + 1)
		c.vals[h] = state.Validators.Copy()
		c.params[h] = state.ConsensusParams
		ttxs := make([]types.Tx, len(txs))
		for j, s := range txs {
			ttxs[j] = types.Tx(s)
		}
		block, parts := state.MakeBlock(h, ttxs, lastCommit, nil, state.Validators.GetProposer().Address)
		blockID := types.BlockID{Hash: block.Hash(), PartSetHeader: parts.Header()}
		signers := state.Validators
		state, _, err = exec.ApplyBlock(state, blockID, block)
		if err != nil {
			return nil, fmt.Errorf("ApplyBlock(%d): %w", h, err)
		}
		// +2/3 precommits for the block; vote time t0+h seconds defines the next block's time
		sigs := make([]types.CommitSig, signers.Size())
		for vi, v := range signers.Validators {
			if ai, ok := spec.AbsentVote[h]; ok && ai == vi {
				sigs[vi] = types.NewCommitSigAbsent()
				continue
			}
			vote, err := types.MakeVote(h, blockID, signers, c.pvByAddr[string(v.Address)], c.chainID, c.t0.Add(time.Duration(h)*time.Second))
			c20Must(err)
			sigs[vi] = vote.CommitSig()
		}
		commit := types.NewCommit(h, 0, blockID, sigs)
		blockStore.SaveBlock(block, parts, commit)
		c.blocks[h], c.blockIDs[h], c.seen[h] = block, blockID, commit
		for j, tx := range ttxs {
			c.txAt[string(tx.Hash())] = [2]int64{h, int64(j)}
		}
		lastCommit = commit
		c.tip = h
		// the indexer service runs behind the event bus: wait (on the condition) until this block is indexed
		deadline := time.Now().Add(60 * time.Second)
		for {
			ok, _ := blkIdx.Has(h)
			if ok && len(ttxs) > 0 {
				last := ttxs[len(ttxs)-1]
				r, _ := txIdx.Get(last.Hash())
				ok = r != nil && r.Height == h && int(r.Index) == len(ttxs)-1
			}
			if ok {
				break
			}
			if time.Now().After(deadline) {
				return nil, errC20Inconclusive
			}
			time.Sleep(200 * time.Microsecond)
		}
	}
	c.vals[c.tip+1] = state.Validators.Copy()
	c.params[c.tip+1] = state.ConsensusParams

	c.env = &core.Environment{
		ProxyAppQuery: conns.Query(), ProxyAppMempool: conns.Mempool(),
		StateStore: stateStore, BlockStore: c20CapStore{BlockStore: blockStore, vis: &c.vis}, EvidencePool: sm.EmptyEvidencePool{},
		P2PTransport: c20Transport{}, PubKey: c.keyPool[0].PubKey(), GenDoc: gen,
		TxIndexer: txIdx, BlockIndexer: blkIdx, ConsensusReactor: &consensus.Reactor{}, EventBus: bus,
		Mempool: mempoolmock.Mempool{}, Logger: log.NewNopLogger(),
	}
	return c, nil
}

func (c *c20Chain) stop() {
	for i := len(c.stops) - 1; i >= 0; i-- {
		c.stops[i]()
	}
}

// c20CapStore shows the block store as it was when the node had committed only vis blocks: a case that lets the chain grow
// between two requests raises vis. Everything above vis is absent, the canonical commit of vis itself (it lives in block
// vis+1) too; the seen commit of vis is there, as in a real node.
type c20CapStore struct {
	sm.BlockStore
	vis *int64
}

func (s c20CapStore) top() int64 {
	if v := atomic.LoadInt64(s.vis); v != 0 && v < s.BlockStore.Height() {
		return v
	}
	return s.BlockStore.Height()
}
func (s c20CapStore) Height() int64 { return s.top() }
func (s c20CapStore) Size() int64   { return s.top() - s.BlockStore.Base() + 1 }
func (s c20CapStore) LoadBlock(h int64) *types.Block {
	if h > s.top() {
		return nil
	}
	return s.BlockStore.LoadBlock(h)
}
func (s c20CapStore) LoadBlockMeta(h int64) *types.BlockMeta {
	if h > s.top() {
		return nil
	}
	return s.BlockStore.LoadBlockMeta(h)
}
func (s c20CapStore) LoadBlockPart(h int64, i int) *types.Part {
	if h > s.top() {
		return nil
	}
	return s.BlockStore.LoadBlockPart(h, i)
}
func (s c20CapStore) LoadBlockCommit(h int64) *types.Commit {
	if h >= s.top() && s.top() < s.BlockStore.Height() {
		return nil
	}
	return s.BlockStore.LoadBlockCommit(h)
}
func (s c20CapStore) LoadSeenCommit(h int64) *types.Commit {
	if h > s.top() {
		return nil
	}
	return s.BlockStore.LoadSeenCommit(h)
}
func (s c20CapStore) LoadBlockByHash(hash []byte) *types.Block {
	b := s.BlockStore.LoadBlockByHash(hash)
	if b != nil && b.Height > s.top() {
		return nil
	}
	return b
}

func (c *c20Chain) setVis(v int64) { atomic.StoreInt64(&c.vis, v) }

// activate makes this chain the one rpc/core serves (package-level singleton, exactly as in a node).
func (c *c20Chain) activate() { core.SetEnvironment(c.env) }

// ---------------------------------------------------------------------------------------------
// the full node as seen through RPC

// c20Falsifier edits one response of the lying server. method is the RPC method name; res is the decoded
// response about to be handed to the caller (already a private deep copy).
type c20Falsifier func(method string, res interface{})

// c20Node answers through the real rpc/core handlers. Methods the verifying client never calls are left
// to the embedded nil interface (a call would panic and fail the harness loudly).
type c20Node struct {
	rpcclient.Client
	chain *c20Chain
	mtx   sync.Mutex
	lie   c20Falsifier
	calls map[string]int
	// afterServe (optional) runs after the node has produced its answer to a request (method, request key)
	afterServe func(method, key string)
}

func (n *c20Node) setLie(f c20Falsifier) { n.mtx.Lock(); n.lie = f; n.mtx.Unlock() }

func (n *c20Node) callCount(method string) int {
	n.mtx.Lock()
	defer n.mtx.Unlock()
	return n.calls[method]
}

var _ rpcclient.RemoteClient = (*c20Node)(nil)

func newC20Node(c *c20Chain, lie c20Falsifier) *c20Node {
	return &c20Node{chain: c, lie: lie, calls: map[string]int{}}
}

func (n *c20Node) Remote() string  { return "c20://" + n.chain.chainID }
func (n *c20Node) IsRunning() bool { return true }
func (n *c20Node) Start() error    { return nil }
func (n *c20Node) Stop() error     { return nil }

// c20Wire passes a handler result through the JSON-RPC result encoding (tmjson on both sides).
func c20Wire(in interface{}, out interface{}) error {
	bz, err := tmjson.Marshal(in)
	if err != nil {
		return fmt.Errorf("encode: %w", err)
	}
	return tmjson.Unmarshal(bz, out)
}

func (n *c20Node) finish(method string, res interface{}) {
	n.mtx.Lock()
	n.calls[method]++
	lie := n.lie
	n.mtx.Unlock()
	if lie != nil {
		lie(method, res)
	}
}

var c20Ctx = &rpctypes.Context{}

// serve: run the real handler (once per distinct request — the stores never change after the chain is built —
// its wire encoding is memoised), decode a private copy for this caller, let the falsifier at it.
func (n *c20Node) serve(method, key string, call func() (interface{}, error), out interface{}) error {
	reqKey := key
	key = method + "|" + key
	if atomic.LoadInt64(&n.chain.vis) != 0 {
		// a growing chain: answers depend on the moment, nothing is memoised
		res, err := call()
		if err != nil {
			return err
		}
		bz, err := tmjson.Marshal(res)
		if err != nil {
			return fmt.Errorf("encode: %w", err)
		}
		if n.afterServe != nil {
			n.afterServe(method, reqKey)
		}
		if err := tmjson.Unmarshal(bz, out); err != nil {
			return fmt.Errorf("decode: %w", err)
		}
		n.finish(method, out)
		return nil
	}
	n.chain.wireMtx.Lock()
	bz, ok := n.chain.wire[key]
	n.chain.wireMtx.Unlock()
	if !ok {
		res, err := call()
		if err != nil {
			return err
		}
		if bz, err = tmjson.Marshal(res); err != nil {
			return fmt.Errorf("encode: %w", err)
		}
		n.chain.wireMtx.Lock()
		n.chain.wire[key] = bz
		n.chain.wireMtx.Unlock()
	}
	if err := tmjson.Unmarshal(bz, out); err != nil {
		return fmt.Errorf("decode: %w", err)
	}
	n.finish(method, out)
	return nil
}

func c20HKey(h *int64) string {
	if h == nil {
		return "nil"
	}
	return strconv.FormatInt(*h, 10)
}

func c20IKey(i *int) string {
	if i == nil {
		return "nil"
	}
	return strconv.Itoa(*i)
}

func (n *c20Node) Status(ctx context.Context) (*ctypes.ResultStatus, error) {
	res, err := core.Status(c20Ctx)
	if err != nil {
		return nil, err
	}
	n.finish("status", res) // NodeInfo is an interface-free struct here; no wire round trip needed for what is used
	return res, nil
}

func (n *c20Node) Block(ctx context.Context, height *int64) (*ctypes.ResultBlock, error) {
	out := new(ctypes.ResultBlock)
	if err := n.serve("block", c20HKey(height), func() (interface{}, error) { return core.Block(c20Ctx, height) }, out); err != nil {
		return nil, err
	}
	return out, nil
}

func (n *c20Node) BlockByHash(ctx context.Context, hash []byte) (*ctypes.ResultBlock, error) {
	out := new(ctypes.ResultBlock)
	if err := n.serve("block_by_hash", fmt.Sprintf("%X", hash), func() (interface{}, error) { return core.BlockByHash(c20Ctx, hash) }, out); err != nil {
		return nil, err
	}
	return out, nil
}

func (n *c20Node) BlockchainInfo(ctx context.Context, minHeight, maxHeight int64) (*ctypes.ResultBlockchainInfo, error) {
	out := new(ctypes.ResultBlockchainInfo)
	if err := n.serve("blockchain", fmt.Sprintf("%d-%d", minHeight, maxHeight), func() (interface{}, error) { return core.BlockchainInfo(c20Ctx, minHeight, maxHeight) }, out); err != nil {
		return nil, err
	}
	return out, nil
}

func (n *c20Node) Commit(ctx context.Context, height *int64) (*ctypes.ResultCommit, error) {
	out := new(ctypes.ResultCommit)
	if err := n.serve("commit", c20HKey(height), func() (interface{}, error) { return core.Commit(c20Ctx, height) }, out); err != nil {
		return nil, err
	}
	return out, nil
}

func (n *c20Node) Validators(ctx context.Context, height *int64, page, perPage *int) (*ctypes.ResultValidators, error) {
	out := new(ctypes.ResultValidators)
	if err := n.serve("validators", c20HKey(height)+"/"+c20IKey(page)+"/"+c20IKey(perPage), func() (interface{}, error) { return core.Validators(c20Ctx, height, page, perPage) }, out); err != nil {
		return nil, err
	}
	return out, nil
}

func (n *c20Node) ConsensusParams(ctx context.Context, height *int64) (*ctypes.ResultConsensusParams, error) {
	out := new(ctypes.ResultConsensusParams)
	if err := n.serve("consensus_params", c20HKey(height), func() (interface{}, error) { return core.ConsensusParams(c20Ctx, height) }, out); err != nil {
		return nil, err
	}
	return out, nil
}

func (n *c20Node) Tx(ctx context.Context, hash []byte, prove bool) (*ctypes.ResultTx, error) {
	out := new(ctypes.ResultTx)
	if err := n.serve("tx", fmt.Sprintf("%X/%v", hash, prove), func() (interface{}, error) { return core.Tx(c20Ctx, hash, prove) }, out); err != nil {
		return nil, err
	}
	return out, nil
}

func (n *c20Node) BlockResults(ctx context.Context, height *int64) (*ctypes.ResultBlockResults, error) {
	out := new(ctypes.ResultBlockResults)
	if err := n.serve("block_results", c20HKey(height), func() (interface{}, error) { return core.BlockResults(c20Ctx, height) }, out); err != nil {
		return nil, err
	}
	return out, nil
}

func (n *c20Node) ABCIQuery(ctx context.Context, path string, data tmbytes.HexBytes) (*ctypes.ResultABCIQuery, error) {
	return n.ABCIQueryWithOptions(ctx, path, data, rpcclient.DefaultABCIQueryOptions)
}

func (n *c20Node) ABCIQueryWithOptions(ctx context.Context, path string, data tmbytes.HexBytes,
	opts rpcclient.ABCIQueryOptions) (*ctypes.ResultABCIQuery, error) {
	out := new(ctypes.ResultABCIQuery)
	key := fmt.Sprintf("%s/%X/%d/%v/%v", path, []byte(data), opts.Height, opts.Prove, n.chain.app.absenceKeyAsPath)
	if err := n.serve("abci_query", key, func() (interface{}, error) { return core.ABCIQuery(c20Ctx, path, data, opts.Height, opts.Prove) }, out); err != nil {
		return nil, err
	}
	return out, nil
}

func (n *c20Node) BroadcastEvidence(ctx context.Context, ev types.Evidence) (*ctypes.ResultBroadcastEvidence, error) {
	n.mtx.Lock()
	n.calls["broadcast_evidence"]++
	n.mtx.Unlock()
	return &ctypes.ResultBroadcastEvidence{Hash: ev.Hash()}, nil
}
