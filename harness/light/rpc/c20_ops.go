package rpc

// C20 — operations of the verifying client, how one is executed (against the client or directly against the
// honest node), and the consistency oracle: is a returned result consistent with the canonical chain (the
// only chain whose headers a light client with one honest witness and unforgeable signatures can verify)?

import (
	"bytes"
	"context"
	"fmt"
	"net/url"
	"regexp"
	"strings"
	"time"

	dbm "github.com/tendermint/tm-db"

	abci "github.com/tendermint/tendermint/abci/types"
	"github.com/tendermint/tendermint/libs/log"
	"github.com/tendermint/tendermint/light"
	"github.com/tendermint/tendermint/light/provider"
	lighthttp "github.com/tendermint/tendermint/light/provider/http"
	dbs "github.com/tendermint/tendermint/light/store/db"
	rpcclient "github.com/tendermint/tendermint/rpc/client"
	ctypes "github.com/tendermint/tendermint/rpc/core/types"
	"github.com/tendermint/tendermint/types"
)

type c20Op struct {
	M       string `json:"m"`                  // block block_by_hash blockchain commit validators consensus_params tx block_results abci_query
	H       int64  `json:"h,omitempty"`        // height argument (0 = nil = "latest"); blockchain: min; abci_query: query height
	H2      int64  `json:"h2,omitempty"`       // blockchain: max
	Page    int    `json:"page,omitempty"`     // validators (0 = nil)
	PerPage int    `json:"per_page,omitempty"` // validators (0 = nil)
	Tx      string `json:"tx,omitempty"`       // tx: the transaction whose hash is asked for
	Unknown bool   `json:"unknown,omitempty"`  // block_by_hash / tx: ask for a hash nobody has
	Store   string `json:"store,omitempty"`    // abci_query
	Key     string `json:"key,omitempty"`      // abci_query
	AbsPath bool   `json:"abs_path,omitempty"` // abci_query: the app answers absence with Key in key-path form
}

func (o c20Op) String() string {
	switch o.M {
	case "blockchain":
		return fmt.Sprintf("blockchain(%d,%d)", o.H, o.H2)
	case "validators":
		return fmt.Sprintf("validators(%d,page=%d,per=%d)", o.H, o.Page, o.PerPage)
	case "tx":
		return fmt.Sprintf("tx(%q,unknown=%v)", o.Tx, o.Unknown)
	case "abci_query":
		return fmt.Sprintf("abci_query(%s/%s@%d,abspath=%v)", o.Store, o.Key, o.H, o.AbsPath)
	case "block_by_hash":
		return fmt.Sprintf("block_by_hash(of %d,unknown=%v)", o.H, o.Unknown)
	}
	return fmt.Sprintf("%s(%d)", o.M, o.H)
}

var c20MethodName = map[string]string{"block": "Block", "block_by_hash": "BlockByHash", "blockchain": "BlockchainInfo",
	"commit": "Commit", "validators": "Validators", "consensus_params": "ConsensusParams", "tx": "Tx",
	"block_results": "BlockResults", "abci_query": "ABCIQueryWithOptions"}

type c20API interface {
	Block(ctx context.Context, height *int64) (*ctypes.ResultBlock, error)
	BlockByHash(ctx context.Context, hash []byte) (*ctypes.ResultBlock, error)
	BlockchainInfo(ctx context.Context, minHeight, maxHeight int64) (*ctypes.ResultBlockchainInfo, error)
	Commit(ctx context.Context, height *int64) (*ctypes.ResultCommit, error)
	Validators(ctx context.Context, height *int64, page, perPage *int) (*ctypes.ResultValidators, error)
	ConsensusParams(ctx context.Context, height *int64) (*ctypes.ResultConsensusParams, error)
	Tx(ctx context.Context, hash []byte, prove bool) (*ctypes.ResultTx, error)
	BlockResults(ctx context.Context, height *int64) (*ctypes.ResultBlockResults, error)
	ABCIQueryWithOptions(ctx context.Context, path string, data []byte, opts rpcclient.ABCIQueryOptions) (*ctypes.ResultABCIQuery, error)
}

// adapters: tmbytes.HexBytes parameter of the real interfaces
type c20ClientAPI struct{ *Client }

func (a c20ClientAPI) ABCIQueryWithOptions(ctx context.Context, path string, data []byte, opts rpcclient.ABCIQueryOptions) (*ctypes.ResultABCIQuery, error) {
	return a.Client.ABCIQueryWithOptions(ctx, path, data, opts)
}

type c20NodeAPI struct{ *c20Node }

func (a c20NodeAPI) ABCIQueryWithOptions(ctx context.Context, path string, data []byte, opts rpcclient.ABCIQueryOptions) (*ctypes.ResultABCIQuery, error) {
	return a.c20Node.ABCIQueryWithOptions(ctx, path, data, opts)
}

// c20Call executes one operation. A panic inside the callee is caught and reported (pan != "").
func c20Call(api c20API, ch *c20Chain, op c20Op) (res interface{}, err error, pan string) {
	defer func() {
		if x := recover(); x != nil {
			res, err, pan = nil, nil, fmt.Sprint(x)
		}
	}()
	ctx := context.Background()
	hp := func(h int64) *int64 {
		if h == 0 {
			return nil
		}
		return &h
	}
	ip := func(i int) *int {
		if i == 0 {
			return nil
		}
		return &i
	}
	switch op.M {
	case "block":
		r, e := api.Block(ctx, hp(op.H))
		if e != nil || r == nil {
			return nil, e, ""
		}
		return r, nil, ""
	case "block_by_hash":
		hash := bytes.Repeat([]byte{0xEE}, 32)
		if !op.Unknown {
			hash = ch.blocks[op.H].Hash()
		}
		r, e := api.BlockByHash(ctx, hash)
		if e != nil || r == nil {
			return nil, e, ""
		}
		return r, nil, ""
	case "blockchain":
		r, e := api.BlockchainInfo(ctx, op.H, op.H2)
		if e != nil || r == nil {
			return nil, e, ""
		}
		return r, nil, ""
	case "commit":
		r, e := api.Commit(ctx, hp(op.H))
		if e != nil || r == nil {
			return nil, e, ""
		}
		return r, nil, ""
	case "validators":
		r, e := api.Validators(ctx, hp(op.H), ip(op.Page), ip(op.PerPage))
		if e != nil || r == nil {
			return nil, e, ""
		}
		return r, nil, ""
	case "consensus_params":
		r, e := api.ConsensusParams(ctx, hp(op.H))
		if e != nil || r == nil {
			return nil, e, ""
		}
		return r, nil, ""
	case "tx":
		hash := types.Tx(op.Tx).Hash()
		if op.Unknown {
			hash = bytes.Repeat([]byte{0xEE}, 32)
		}
		r, e := api.Tx(ctx, hash, true)
		if e != nil || r == nil {
			return nil, e, ""
		}
		return r, nil, ""
	case "block_results":
		r, e := api.BlockResults(ctx, hp(op.H))
		if e != nil || r == nil {
			return nil, e, ""
		}
		return r, nil, ""
	case "abci_query":
		ch.app.absenceKeyAsPath = op.AbsPath
		defer func() { ch.app.absenceKeyAsPath = false }()
		r, e := api.ABCIQueryWithOptions(ctx, c20QueryPath(op.Store), []byte(op.Key), rpcclient.ABCIQueryOptions{Height: op.H, Prove: true})
		if e != nil || r == nil {
			return nil, e, ""
		}
		return r, nil, ""
	}
	panic("c20: unknown op " + op.M)
}

// ---------------------------------------------------------------------------------------------
// verifying client under test

type c20LC struct {
	Anchor int64  `json:"anchor"` // trusted height the light client is initialised with
	Mode   string `json:"mode"`   // "seq" | "skip"
}

type c20SUT struct {
	cl      *Client
	lc      *light.Client
	primary *c20Node
	witness *c20Node
}

func c20NewSUT(ch *c20Chain, cfg c20LC) (*c20SUT, error) {
	s := &c20SUT{primary: newC20Node(ch, nil), witness: newC20Node(ch, nil)}
	opts := []light.Option{light.Logger(log.NewNopLogger())}
	if cfg.Mode == "seq" {
		opts = append(opts, light.SequentialVerification())
	}
	lc, err := light.NewClient(context.Background(), ch.chainID,
		light.TrustOptions{Period: 100000 * time.Hour, Height: cfg.Anchor, Hash: ch.blocks[cfg.Anchor].Hash()},
		lighthttp.NewWithClient(ch.chainID, s.primary), []provider.Provider{lighthttp.NewWithClient(ch.chainID, s.witness)},
		dbs.New(dbm.NewMemDB(), ""), opts...)
	if err != nil {
		return nil, err
	}
	s.lc = lc
	s.cl = NewClient(s.primary, lc, KeyPathFn(DefaultMerkleKeyPathFn()))
	s.cl.RegisterOpDecoder(c20AbsenceOpType, c20AbsenceOpDecoder)
	s.cl.RegisterOpDecoder(c20StepOpType, c20StepOpDecoder) // key-less operator type: only a lying server uses it
	return s, nil
}

// ---------------------------------------------------------------------------------------------
// oracle helpers

// c20Provable: does a header that commits to the honest answer exist on the chain yet? (AppHash and
// LastResultsHash of height h are in header h+1; params of height h are in header h.)
func c20Provable(ch *c20Chain, op c20Op, honest interface{}) bool {
	switch r := honest.(type) {
	case *ctypes.ResultABCIQuery:
		return r.Response.Height+1 <= ch.tip
	case *ctypes.ResultBlockResults:
		if op.H == 0 { // the client itself asks for latest-1 in this case
			return ch.tip-1 >= 1
		}
		return r.Height+1 <= ch.tip
	case *ctypes.ResultConsensusParams:
		return r.BlockHeight <= ch.tip
	}
	return true
}

// c20NodeAnswers: the honest node returned data (not an error / error code / empty result).
func c20NodeAnswers(res interface{}, err error) bool {
	if err != nil || res == nil {
		return false
	}
	switch r := res.(type) {
	case *ctypes.ResultBlock:
		return r.Block != nil
	case *ctypes.ResultABCIQuery:
		return r.Response.Code == abci.CodeTypeOK
	}
	return true
}

var c20ErrClasses = []struct {
	re    *regexp.Regexp
	class string
}{
	{regexp.MustCompile(`last results .* does not match with trusted last results`), "results-hash-mismatch"},
	{regexp.MustCompile(`^trusted header \d+:`), "header-not-in-trusted-store"},
	{regexp.MustCompile(`^verify absence proof`), "absence-proof-rejected"},
	{regexp.MustCompile(`^verify value proof`), "value-proof-rejected"},
	{regexp.MustCompile(`^failed to update light client`), "light-client-update-failed"},
	{regexp.MustCompile(`does not match with trusted header`), "header-hash-mismatch"},
	{regexp.MustCompile(`params hash .* does not match trusted hash`), "params-hash-mismatch"},
	{regexp.MustCompile(`proof`), "tx-proof-rejected"},
}

func c20ErrClass(err error, pan string) string {
	if pan != "" {
		if strings.Contains(pan, "nil pointer") {
			return "panic-nil-light-block"
		}
		return "panic"
	}
	for _, c := range c20ErrClasses {
		if c.re.MatchString(err.Error()) {
			return c.class
		}
	}
	return "other"
}

// c20TwoThirds: do the for-block signatures of commit, verified one by one against the canonical validator
// set of that height, carry more than 2/3 of its power? (deliberately independent of types.VerifyCommit*)
func c20TwoThirds(ch *c20Chain, h int64, commit *types.Commit) bool {
	vs := ch.vals[h]
	if vs == nil || commit == nil || len(commit.Signatures) != vs.Size() {
		return false
	}
	var sum int64
	for i, cs := range commit.Signatures {
		if cs.BlockIDFlag != types.BlockIDFlagCommit {
			continue
		}
		if vs.Validators[i].PubKey.VerifySignature(commit.VoteSignBytes(ch.chainID, int32(i)), cs.Signature) {
			sum += vs.Validators[i].VotingPower
		}
	}
	return sum*3 > vs.TotalVotingPower()*2
}

func c20HeaderIs(ch *c20Chain, hd *types.Header) string {
	cb := ch.blocks[hd.Height]
	if cb == nil {
		return fmt.Sprintf("no canonical block at height %d", hd.Height)
	}
	a, b := hd.ToProto(), cb.Header.ToProto()
	ab, _ := a.Marshal()
	bb, _ := b.Marshal()
	if !bytes.Equal(ab, bb) {
		return fmt.Sprintf("header of height %d differs from the canonical header", hd.Height)
	}
	return ""
}

// c20Consistent returns "" when every header-committed part of res agrees with the canonical chain at the
// height(s) the result itself names; otherwise a description of the first disagreement. other=true when the
// (consistent) result is not the answer to the request that was made (diagnostic only).
func c20Consistent(ch *c20Chain, op c20Op, res interface{}) (bad string, other bool) {
	switch r := res.(type) {
	case *ctypes.ResultBlock:
		if r.Block == nil {
			return "nil block returned", false
		}
		h := r.Block.Height
		if s := c20HeaderIs(ch, &r.Block.Header); s != "" {
			return "Block.Header: " + s, false
		}
		cb := ch.blocks[h]
		if len(r.Block.Data.Txs) != len(cb.Data.Txs) {
			return fmt.Sprintf("Block.Data: %d txs, canonical block %d has %d", len(r.Block.Data.Txs), h, len(cb.Data.Txs)), false
		}
		for i := range cb.Data.Txs {
			if !bytes.Equal(r.Block.Data.Txs[i], cb.Data.Txs[i]) {
				return fmt.Sprintf("Block.Data.Txs[%d] differs from canonical block %d", i, h), false
			}
		}
		if len(r.Block.Evidence.Evidence) != len(cb.Evidence.Evidence) {
			return "Block.Evidence differs", false
		}
		if r.Block.LastCommit == nil || len(r.Block.LastCommit.Signatures) != len(cb.LastCommit.Signatures) {
			return "Block.LastCommit signature list differs", false
		}
		for i := range cb.LastCommit.Signatures {
			a, _ := r.Block.LastCommit.Signatures[i].ToProto().Marshal()
			b, _ := cb.LastCommit.Signatures[i].ToProto().Marshal()
			if !bytes.Equal(a, b) {
				return fmt.Sprintf("Block.LastCommit.Signatures[%d] differs from canonical block %d", i, h), false
			}
		}
		if !bytes.Equal(r.BlockID.Hash, cb.Hash()) {
			return "BlockID.Hash differs from canonical block hash", false
		}
		if op.M == "block" && op.H != 0 && op.H != h {
			other = true
		}
		if op.M == "block_by_hash" && !bytes.Equal(ch.blocks[op.H].Hash(), cb.Hash()) {
			other = true
		}
		return "", other
	case *ctypes.ResultBlockchainInfo:
		for i, m := range r.BlockMetas {
			if m == nil {
				return "nil meta", false
			}
			if s := c20HeaderIs(ch, &m.Header); s != "" {
				return fmt.Sprintf("BlockMetas[%d].Header: %s", i, s), false
			}
			if !bytes.Equal(m.BlockID.Hash, ch.blocks[m.Header.Height].Hash()) {
				return fmt.Sprintf("BlockMetas[%d].BlockID.Hash differs", i), false
			}
		}
		return "", false
	case *ctypes.ResultCommit:
		if r.Header == nil || r.Commit == nil {
			return "nil header/commit", false
		}
		h := r.Header.Height
		if s := c20HeaderIs(ch, r.Header); s != "" {
			return "SignedHeader.Header: " + s, false
		}
		if r.Commit.Height != h || !bytes.Equal(r.Commit.BlockID.Hash, ch.blocks[h].Hash()) {
			return "SignedHeader.Commit is not for this header", false
		}
		if !c20TwoThirds(ch, h, r.Commit) {
			return "SignedHeader.Commit does not carry +2/3 valid signatures of the canonical validator set", false
		}
		return "", op.H != 0 && op.H != h
	case *ctypes.ResultValidators:
		vs := ch.vals[r.BlockHeight]
		if vs == nil || r.BlockHeight > ch.tip {
			return fmt.Sprintf("no header commits to a validator set of height %d", r.BlockHeight), false
		}
		per := op.PerPage
		if per < 1 {
			per = 30
		} else if per > 100 {
			per = 100
		}
		page := op.Page
		if page == 0 {
			page = 1
		}
		skip := (page - 1) * per
		if r.Total != vs.Size() || r.Count != len(r.Validators) {
			return fmt.Sprintf("Total/Count (%d/%d) inconsistent with the set of height %d (%d)", r.Total, r.Count, r.BlockHeight, vs.Size()), false
		}
		want := vs.Size() - skip
		if want > per {
			want = per
		}
		if len(r.Validators) != want {
			return fmt.Sprintf("%d validators returned, page holds %d", len(r.Validators), want), false
		}
		for i, v := range r.Validators {
			c := vs.Validators[skip+i]
			if v == nil || v.PubKey == nil || !v.PubKey.Equals(c.PubKey) || v.VotingPower != c.VotingPower {
				return fmt.Sprintf("Validators[%d] (key/power) differs from the canonical set of height %d", i, r.BlockHeight), false
			}
		}
		return "", op.H != 0 && op.H != r.BlockHeight
	case *ctypes.ResultConsensusParams:
		if r.BlockHeight < 1 || r.BlockHeight > ch.tip {
			return fmt.Sprintf("no header commits to params of height %d", r.BlockHeight), false
		}
		p := ch.params[r.BlockHeight]
		if r.ConsensusParams.Block.MaxBytes != p.Block.MaxBytes || r.ConsensusParams.Block.MaxGas != p.Block.MaxGas {
			return fmt.Sprintf("Block.MaxBytes/MaxGas differ from the params of height %d", r.BlockHeight), false
		}
		return "", op.H != 0 && op.H != r.BlockHeight
	case *ctypes.ResultTx:
		cb := ch.blocks[r.Height]
		if cb == nil {
			return fmt.Sprintf("Height %d: no such block", r.Height), false
		}
		if int(r.Index) >= len(cb.Data.Txs) {
			return fmt.Sprintf("Index %d: block %d has %d txs", r.Index, r.Height, len(cb.Data.Txs)), false
		}
		if !bytes.Equal(r.Tx, cb.Data.Txs[r.Index]) {
			return fmt.Sprintf("Tx: returned bytes %q are not the transaction at height %d index %d (%q)", []byte(r.Tx), r.Height, r.Index, []byte(cb.Data.Txs[r.Index])), false
		}
		if !bytes.Equal(r.Hash, r.Tx.Hash()) {
			return "Hash: is not the hash of the returned transaction", false
		}
		if !bytes.Equal(r.Proof.Data, r.Tx) {
			return "Proof.Data: the proof is for other bytes than the returned transaction", false
		}
		if !bytes.Equal(r.Proof.RootHash, cb.DataHash) {
			return "Proof.RootHash differs from the block's DataHash", false
		}
		cp := cb.Data.Txs.Proof(int(r.Index))
		if r.Proof.Proof.Index != cp.Proof.Index || !bytes.Equal(r.Proof.Proof.LeafHash, cp.Proof.LeafHash) || len(r.Proof.Proof.Aunts) != len(cp.Proof.Aunts) {
			return "Proof.Proof: index/leaf/aunts differ from the inclusion path of that position", false
		}
		for i := range cp.Proof.Aunts {
			if !bytes.Equal(r.Proof.Proof.Aunts[i], cp.Proof.Aunts[i]) {
				return "Proof.Proof.Aunts differ from the inclusion path of that position", false
			}
		}
		return "", !op.Unknown && !bytes.Equal(types.Tx(op.Tx).Hash(), r.Tx.Hash())
	case *ctypes.ResultBlockResults:
		rec := ch.app.records[r.Height]
		if rec == nil || r.Height+1 > ch.tip {
			return fmt.Sprintf("no header commits to results of height %d", r.Height), false
		}
		if len(r.TxsResults) != len(rec.Delivers) {
			return fmt.Sprintf("%d tx results, block %d produced %d", len(r.TxsResults), r.Height, len(rec.Delivers)), false
		}
		for i, d := range rec.Delivers {
			x := r.TxsResults[i]
			if x == nil || x.Code != d.Code || !bytes.Equal(x.Data, d.Data) || x.GasWanted != d.GasWanted || x.GasUsed != d.GasUsed {
				return fmt.Sprintf("TxsResults[%d] (code/data/gas) differs from what block %d produced", i, r.Height), false
			}
		}
		want := op.H
		if want == 0 {
			want = ch.tip - 1
		}
		return "", want != r.Height
	case *ctypes.ResultABCIQuery:
		q := r.Response
		snap := ch.app.history[q.Height]
		if snap == nil || q.Height < 1 || q.Height+1 > ch.tip {
			return fmt.Sprintf("no header commits to application state of height %d", q.Height), false
		}
		key := string(q.Key)
		if strings.HasPrefix(key, "/"+url.PathEscape(op.Store)+"/") {
			if k, err := url.PathUnescape(key[len(op.Store)+2:]); err == nil {
				key = k
			}
		}
		v, present := snap.stores[op.Store][key]
		if q.Value != nil {
			if !present || v != string(q.Value) {
				return fmt.Sprintf("Value %q for key %q is not what store %q held at height %d", q.Value, key, op.Store, q.Height), false
			}
		} else if present {
			return fmt.Sprintf("absence claimed for key %q which store %q held at height %d", key, op.Store, q.Height), false
		}
		return "", key != op.Key || (op.H != 0 && op.H != q.Height)
	}
	return fmt.Sprintf("unexpected result type %T", res), false
}
