// Package vr is the reporting side of the verification harnesses: every harness part creates one
// Report, counts what it explored, records violations with a replayable case, and writes one JSON
// file that bin/check merges into /verif/evidence/<id>.json.
//
// It is injected into the tendermint module as github.com/tendermint/tendermint/internal/verif/vr
// by `go test -overlay`; nothing in /repo imports it.
package vr

import (
	"encoding/json"
	"fmt"
	"os"
	"path/filepath"
	"sort"
	"strconv"
	"strings"
	"sync"
	"time"
)

// Violation is one failing case. Key is the canonical identity of the failure (call site + input
// class); known_findings.json matches on it. Replay is whatever the part needs to re-run the case.
type Violation struct {
	Key    string      `json:"key"`
	What   string      `json:"what"`
	Replay interface{} `json:"replay"`
	Count  int         `json:"count"`
}

type Report struct {
	mtx sync.Mutex

	PropertyID string `json:"property_id"`
	Part       string `json:"part"`
	Tier       string `json:"tier"`
	Seed       int64  `json:"seed"`
	Shard      int    `json:"shard"`
	NShards    int    `json:"nshards"`

	Evaluations int64  `json:"evaluations"`
	Nontrivial  int64  `json:"distinct_nontrivial"`
	Rule        string `json:"rule"`
	States      int64  `json:"states"`
	Transitions int64  `json:"transitions"`
	Traces      int64  `json:"traces_validated_against_impl"`
	MaxDepth    int    `json:"max_depth"`

	Exhaustive bool     `json:"exhaustive"`
	Caps       []string `json:"caps,omitempty"`
	Bound      string   `json:"bound_completed,omitempty"`

	Samples     []interface{}          `json:"samples"`
	Outcomes    map[string]int64       `json:"distinct_outcomes,omitempty"`
	Extra       map[string]interface{} `json:"extra,omitempty"`
	Assumptions []string               `json:"assumptions,omitempty"`
	Notes       []string               `json:"notes,omitempty"`
	Violations  []*Violation           `json:"violations"`
	WallS       float64                `json:"wall_s"`
	ReplayMode  bool                   `json:"replay_mode,omitempty"`

	ntKeys   map[string]struct{}
	start    time.Time
	deadline time.Time
	outDir   string
	replay   *replayFile
}

type replayFile struct {
	PropertyID string          `json:"property_id"`
	Part       string          `json:"part"`
	Key        string          `json:"key"`
	What       string          `json:"what"`
	Case       json.RawMessage `json:"case"`
}

// Tier returns "quick" or "thorough".
func Tier() string {
	if t := os.Getenv("VERIF_TIER"); t == "thorough" {
		return "thorough"
	}
	return "quick"
}

// Thorough reports whether the thorough bounds are to be used.
func Thorough() bool { return Tier() == "thorough" }

// Pick returns q in the quick tier and t in the thorough tier.
func Pick(q, t int) int {
	if Thorough() {
		return t
	}
	return q
}

// Start creates the report of one harness part. budget is the internal wall-clock budget of this
// part for (quick, thorough); when it is exceeded Deadline() turns true, the part stops exploring,
// and the report says exhaustive:false (never a violation).
func Start(id, part string, quickBudget, thoroughBudget time.Duration) *Report {
	r := &Report{PropertyID: id, Part: part, Tier: Tier(), Exhaustive: true, NShards: 1,
		ntKeys: map[string]struct{}{}, Outcomes: map[string]int64{}, Extra: map[string]interface{}{},
		start: time.Now(), outDir: os.Getenv("VERIF_OUT_DIR"), Violations: []*Violation{}, Samples: []interface{}{}}
	if s, err := strconv.ParseInt(os.Getenv("VERIF_SEED"), 10, 64); err == nil {
		r.Seed = s
	}
	if sh := os.Getenv("VERIF_SHARD"); sh != "" {
		var i, n int
		if _, err := fmt.Sscanf(sh, "%d/%d", &i, &n); err == nil && n > 0 {
			r.Shard, r.NShards = i, n
		}
	}
	b := quickBudget
	if r.Tier == "thorough" {
		b = thoroughBudget
	}
	if s := os.Getenv("VERIF_BUDGET_S"); s != "" {
		if v, err := strconv.Atoi(s); err == nil {
			b = time.Duration(v) * time.Second
		}
	}
	r.deadline = r.start.Add(b)
	if p := os.Getenv("VERIF_REPLAY"); p != "" {
		bz, err := os.ReadFile(p)
		if err != nil {
			panic(fmt.Sprintf("vr: cannot read replay file %s: %v", p, err))
		}
		rf := &replayFile{}
		if err := json.Unmarshal(bz, rf); err != nil {
			panic(fmt.Sprintf("vr: bad replay file %s: %v", p, err))
		}
		if rf.Part == part && rf.PropertyID == id {
			r.replay = rf
			r.ReplayMode = true
		} else {
			r.replay = &replayFile{} // some other part's replay: this part has nothing to do
			r.ReplayMode = true
		}
	}
	return r
}

// ReplayCase: when the run is a replay of a recorded violation of this part, unmarshal its case
// into v and return true; the part then runs exactly that case (through the same code path the
// enumeration uses) and calls Finish. When the replay belongs to another part, skip is true.
func (r *Report) ReplayCase(v interface{}) (replaying bool, skip bool) {
	if r.replay == nil {
		return false, false
	}
	if r.replay.Case == nil {
		return false, true
	}
	if err := json.Unmarshal(r.replay.Case, v); err != nil {
		panic(fmt.Sprintf("vr: replay case does not decode: %v", err))
	}
	return true, false
}

// Mine says whether case number k belongs to this shard.
func (r *Report) Mine(k int) bool {
	if r.NShards <= 1 {
		return true
	}
	if k < 0 {
		k = -k
	}
	return k%r.NShards == r.Shard
}

// Deadline reports whether the internal budget is used up; the first time it says so the report
// is marked non-exhaustive with the given cap description.
func (r *Report) Deadline(what string) bool {
	if time.Now().Before(r.deadline) {
		return false
	}
	r.Cap("time budget reached: " + what)
	return true
}

// Cap records that some bound was hit before the space was closed.
func (r *Report) Cap(what string) {
	r.mtx.Lock()
	defer r.mtx.Unlock()
	r.Exhaustive = false
	for _, c := range r.Caps {
		if c == what {
			return
		}
	}
	if len(r.Caps) < 20 {
		r.Caps = append(r.Caps, what)
	}
}

func (r *Report) Eval() { r.mtx.Lock(); r.Evaluations++; r.mtx.Unlock() }

func (r *Report) EvalN(n int64) { r.mtx.Lock(); r.Evaluations += n; r.mtx.Unlock() }

// NT counts a case as distinct and non-trivial under key (duplicates are counted once).
func (r *Report) NT(key string) {
	r.mtx.Lock()
	if _, ok := r.ntKeys[key]; !ok {
		if len(r.ntKeys) < 5_000_000 {
			r.ntKeys[key] = struct{}{}
		}
		r.Nontrivial++
	}
	r.mtx.Unlock()
}

// NTCount adds n cases that the caller has itself established to be distinct and non-trivial.
func (r *Report) NTCount(n int64) { r.mtx.Lock(); r.Nontrivial += n; r.mtx.Unlock() }

func (r *Report) Outcome(k string) { r.mtx.Lock(); r.Outcomes[k]++; r.mtx.Unlock() }

func (r *Report) Sample(v interface{}) {
	r.mtx.Lock()
	if len(r.Samples) < 6 {
		r.Samples = append(r.Samples, v)
	}
	r.mtx.Unlock()
}

func (r *Report) Set(k string, v interface{}) { r.mtx.Lock(); r.Extra[k] = v; r.mtx.Unlock() }

func (r *Report) Add(k string, n int64) {
	r.mtx.Lock()
	if cur, ok := r.Extra[k].(int64); ok {
		r.Extra[k] = cur + n
	} else {
		r.Extra[k] = n
	}
	r.mtx.Unlock()
}

func (r *Report) Assume(s string) { r.Assumptions = append(r.Assumptions, s) }
func (r *Report) Note(s string) {
	r.mtx.Lock()
	if len(r.Notes) < 50 {
		r.Notes = append(r.Notes, s)
	}
	r.mtx.Unlock()
}

// Violation records a failing case. Only the first case per key keeps its replay data.
func (r *Report) Violation(key, what string, replay interface{}) {
	r.mtx.Lock()
	defer r.mtx.Unlock()
	for _, v := range r.Violations {
		if v.Key == key {
			v.Count++
			return
		}
	}
	if len(r.Violations) >= 40 {
		return
	}
	r.Violations = append(r.Violations, &Violation{Key: key, What: what, Replay: replay, Count: 1})
}

// NViolations is the number of distinct violation keys so far.
func (r *Report) NViolations() int { r.mtx.Lock(); defer r.mtx.Unlock(); return len(r.Violations) }

// Finish writes the part report. It never fails the Go test: the verdict is bin/check's.
func (r *Report) Finish() {
	r.mtx.Lock()
	defer r.mtx.Unlock()
	r.WallS = time.Since(r.start).Seconds()
	sort.Strings(r.Caps)
	bz, err := json.MarshalIndent(r, "", " ")
	if err != nil {
		panic(err)
	}
	if r.outDir == "" {
		s := string(bz)
		if len(s) > 6000 {
			s = s[:6000] + "…"
		}
		fmt.Println(s)
		return
	}
	name := fmt.Sprintf("%s.%s.%d.json", r.PropertyID, strings.ReplaceAll(r.Part, "/", "_"), r.Shard)
	if err := os.WriteFile(filepath.Join(r.outDir, name), bz, 0o644); err != nil {
		panic(err)
	}
}

// Confirm re-runs a failing case n more times and reports whether it failed every time with the
// same message; a case that does not is a harness fault (nondeterminism), not a violation.
func Confirm(n int, first error, run func() error) (stable bool) {
	for i := 0; i < n; i++ {
		err := run()
		if err == nil || err.Error() != first.Error() {
			return false
		}
	}
	return true
}
