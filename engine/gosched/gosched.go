// Package gosched is a small cooperative scheduler for exploring interleavings of real goroutines
// (the CHESS scheme): managed goroutines run one at a time; every hooked operation is a scheduling point at
// which the explorer decides who runs next; mutexes are re-implemented on top so that a blocked thread is
// simply not enabled. Schedules are enumerated depth first with a bound on the number of preemptions.
//
// It is injected as github.com/tendermint/tendermint/internal/verif/gosched. bin/check can rewrite the
// `"sync"` import of a repo file to this package: Mutex and RWMutex behave exactly like sync's until a
// harness calls Manage on a particular mutex, so code that is not under exploration is unaffected.
//
// What is hooked is decided by the harness: managed mutexes and explicit Point/Block calls (e.g. from a fake
// application connection). Operations on unmanaged mutexes, atomics and channels are not scheduling points;
// they execute atomically between two points, which is sound as long as no scheduling point lies inside a
// critical section of an unmanaged mutex.
//
// Scheduling points lie BEFORE acquiring operations (Lock, RLock) and before the explicit Point calls.
// Releasing a managed mutex is not a point of its own: the release takes effect together with the segment
// that precedes it. Nothing is lost by that: whatever another thread could do between the last visible
// operation of this thread and the release is either blocked by that very mutex or independent of this
// thread, and everything it can do after the release it can do while this thread is parked at its next point.
package gosched

import (
	"fmt"
	"runtime"
	"strconv"
	"strings"
	"sync"
)

// Re-exports so that a file whose "sync" import is rewritten still compiles when it uses these.
type (
	WaitGroup = sync.WaitGroup
	Once      = sync.Once
	Map       = sync.Map
	Pool      = sync.Pool
	Cond      = sync.Cond
	Locker    = sync.Locker
)

func NewCond(l Locker) *Cond { return sync.NewCond(l) }

const (
	stReady = iota
	stBlocked
	stDone
)

type killed struct{}

// Thread is one managed goroutine.
type Thread struct {
	ID      int
	Name    string
	resume  chan struct{}
	state   int
	pending string
	ready   func() bool
	goid    int64
	Panic   interface{}
}

// Step is one scheduling decision of an execution.
type Step struct {
	Thread  int    `json:"t"`
	What    string `json:"what"`
	Enabled []int  `json:"-"`
	// CurEnabled: the thread that ran before this step could have continued (choosing another one is a preemption)
	Cur        int  `json:"-"`
	CurEnabled bool `json:"-"`
}

// Result of one execution.
type Result struct {
	Steps    []Step
	Choices  []int
	Deadlock bool
	Blocked  []string // threads blocked at the end (deadlock)
	Panics   []string
	Preempts int
	Overrun  bool // step limit hit
}

func (r *Result) String() string {
	var b strings.Builder
	for i, s := range r.Steps {
		if i > 0 {
			b.WriteString(" | ")
		}
		fmt.Fprintf(&b, "T%d:%s", s.Thread, s.What)
	}
	return b.String()
}

// Sched is one execution context. Build the scenario (Go, Manage), then call Run.
type Sched struct {
	threads []*Thread
	cur     *Thread
	yield   chan struct{}
	active  bool
	dead    bool
	names   []string
	OnStep  func() // called by the scheduler before every decision, while all threads are parked
	MaxStep int
	// CheckGoroutine verifies at every scheduling point that the caller is the thread the scheduler resumed.
	CheckGoroutine bool
}

func New() *Sched { return &Sched{yield: make(chan struct{}), MaxStep: 400} }

func goid() int64 {
	var buf [64]byte
	n := runtime.Stack(buf[:], false)
	// "goroutine 123 [running]:"
	f := strings.Fields(string(buf[:n]))
	if len(f) < 2 {
		return -1
	}
	id, _ := strconv.ParseInt(f[1], 10, 64)
	return id
}

// Go registers a managed goroutine. It starts parked; its first scheduling makes it run f.
func (s *Sched) Go(name string, f func()) *Thread {
	t := &Thread{ID: len(s.threads), Name: name, resume: make(chan struct{}), pending: "start"}
	s.threads = append(s.threads, t)
	go func() {
		<-t.resume
		if s.CheckGoroutine {
			t.goid = goid()
		}
		defer func() {
			if r := recover(); r != nil {
				if _, ok := r.(killed); !ok {
					t.Panic = r
				}
			}
			t.state = stDone
			t.pending = "done"
			s.yield <- struct{}{}
		}()
		if s.dead {
			panic(killed{})
		}
		f()
	}()
	return t
}

// me returns the running managed thread. Exactly one managed goroutine runs at a time, so it is the caller
// unless an unmanaged goroutine has wandered into a scheduling point; with CheckGoroutine set this is verified
// through the goroutine id (expensive: a stack header is formatted), harnesses switch it on for a sample of
// the executions.
func (s *Sched) me() *Thread {
	t := s.cur
	if t == nil || (s.CheckGoroutine && t.goid != goid()) {
		panic("gosched: a goroutine that is not the running managed thread reached a scheduling point")
	}
	return t
}

// Active reports whether an execution is in progress (operations are scheduling points).
func (s *Sched) Active() bool { return s != nil && s.active && !s.dead }

// Point is a scheduling point: the calling managed thread is about to perform the visible operation `what`.
func (s *Sched) Point(what string) {
	if !s.Active() {
		return
	}
	t := s.me()
	t.state, t.pending, t.ready = stReady, what, nil
	s.yield <- struct{}{}
	<-t.resume
	if s.dead {
		panic(killed{})
	}
}

// Block parks the calling thread until ready() holds. ready is evaluated by the scheduler while every thread
// is parked, so it may read shared state freely. Being resumed from a block is a step of the execution.
func (s *Sched) Block(what string, ready func() bool) {
	if !s.Active() {
		return
	}
	t := s.me()
	if ready() {
		return
	}
	t.state, t.pending, t.ready = stBlocked, what, ready
	s.yield <- struct{}{}
	<-t.resume
	if s.dead {
		panic(killed{})
	}
	t.state = stReady
}

// Chooser picks the thread to run from the enabled ones (IDs ascending); cur is the thread that ran last
// (-1: none). step is the index of the decision.
type Chooser func(step int, enabled []int, cur int) int

// Run executes the scenario under the chooser until every thread is done, or nothing is enabled (deadlock).
func (s *Sched) Run(choose Chooser) *Result {
	res := &Result{}
	s.active = true
	curID := -1
	for {
		if s.OnStep != nil {
			s.OnStep()
		}
		var enabled []int
		alldone := true
		for _, t := range s.threads {
			if t.state != stDone {
				alldone = false
			}
			if t.state == stReady || (t.state == stBlocked && t.ready()) {
				enabled = append(enabled, t.ID)
			}
		}
		if alldone {
			break
		}
		if len(enabled) == 0 {
			res.Deadlock = true
			for _, t := range s.threads {
				if t.state == stBlocked {
					res.Blocked = append(res.Blocked, fmt.Sprintf("T%d(%s):%s", t.ID, t.Name, t.pending))
				}
			}
			break
		}
		if len(res.Steps) >= s.MaxStep {
			res.Overrun = true
			break
		}
		curEnabled := false
		for _, e := range enabled {
			if e == curID {
				curEnabled = true
			}
		}
		pick := choose(len(res.Steps), enabled, curID)
		ok := false
		for _, e := range enabled {
			if e == pick {
				ok = true
			}
		}
		if !ok {
			panic(fmt.Sprintf("gosched: chooser picked thread %d which is not enabled %v at step %d (non-deterministic scenario?)", pick, enabled, len(res.Steps)))
		}
		t := s.threads[pick]
		if curEnabled && pick != curID {
			res.Preempts++
		}
		res.Steps = append(res.Steps, Step{Thread: pick, What: t.pending, Enabled: enabled, Cur: curID, CurEnabled: curEnabled})
		res.Choices = append(res.Choices, pick)
		curID = pick
		s.cur = t
		t.resume <- struct{}{}
		<-s.yield
	}
	s.active = false
	s.cur = nil
	// unwind whatever is still parked (deadlock / overrun) so that no goroutine is left behind
	s.dead = true
	for _, t := range s.threads {
		if t.state != stDone {
			s.cur = t
			t.resume <- struct{}{}
			<-s.yield
		}
	}
	s.cur = nil
	for _, t := range s.threads {
		if t.Panic != nil {
			res.Panics = append(res.Panics, fmt.Sprintf("T%d(%s): %v", t.ID, t.Name, t.Panic))
		}
	}
	return res
}

// ------------------------------------------------------------------------------------------------
// exploration

// Explore enumerates all schedules of the scenario with at most maxPreempt preemptions, depth first. build
// must construct a fresh scenario (new Sched, fresh objects) every time; visit gets the result of each
// execution together with whatever build returned, and returns false to stop. It returns the number of
// executions and whether the enumeration was completed.
//
// The default continuation of a schedule prefix is non-preemptive (the running thread continues while it is
// enabled, otherwise the enabled thread with the lowest ID runs), so every schedule is reached exactly once:
// by the prefix that ends at its last deviation from the default.
func Explore(maxPreempt int, build func() (*Sched, interface{}), visit func(res *Result, scenario interface{}) bool) (int, bool) {
	n := 0
	stop := false
	var dfs func(prefix []int, used int)
	dfs = func(prefix []int, used int) {
		if stop {
			return
		}
		s, sc := build()
		res := s.Run(func(step int, enabled []int, cur int) int {
			if step < len(prefix) {
				return prefix[step]
			}
			for _, e := range enabled {
				if e == cur {
					return cur
				}
			}
			return enabled[0]
		})
		n++
		if !visit(res, sc) {
			stop = true
			return
		}
		for i := len(prefix); i < len(res.Steps) && !stop; i++ {
			st := res.Steps[i]
			for _, alt := range st.Enabled {
				if alt == res.Choices[i] {
					continue
				}
				cost := 0
				if st.CurEnabled && alt != st.Cur {
					cost = 1
				}
				if used+cost > maxPreempt {
					continue
				}
				np := append(append([]int(nil), res.Choices[:i]...), alt)
				dfs(np, used+cost)
			}
		}
	}
	dfs(nil, 0)
	return n, !stop
}

// Replay runs one given schedule (choices beyond the list follow the default continuation).
func Replay(choices []int, build func() (*Sched, interface{})) (*Result, interface{}) {
	s, sc := build()
	res := s.Run(func(step int, enabled []int, cur int) int {
		if step < len(choices) {
			return choices[step]
		}
		for _, e := range enabled {
			if e == cur {
				return cur
			}
		}
		return enabled[0]
	})
	return res, sc
}

// ------------------------------------------------------------------------------------------------
// mutexes

// Mutex is sync.Mutex until Manage is called on it.
type Mutex struct {
	mu   sync.Mutex
	s    *Sched
	name string
	held bool
}

func (m *Mutex) Manage(s *Sched, name string) { m.s, m.name, m.held = s, name, false }

func (m *Mutex) Lock() {
	if m.s == nil {
		m.mu.Lock()
		return
	}
	m.s.Point("Lock " + m.name)
	if m.held {
		m.s.Block("Lock(wait) "+m.name, func() bool { return !m.held })
	}
	m.held = true
}

func (m *Mutex) Unlock() {
	if m.s == nil {
		m.mu.Unlock()
		return
	}
	m.held = false // releasing is not a scheduling point, see the package comment
}

func (m *Mutex) TryLock() bool {
	if m.s == nil {
		return m.mu.TryLock()
	}
	m.s.Point("TryLock " + m.name)
	if m.held {
		return false
	}
	m.held = true
	return true
}

// RWMutex is sync.RWMutex until Manage is called on it. A managed RWMutex has Go's writer preference: once a
// writer has called Lock, later RLock calls wait until that writer is through.
type RWMutex struct {
	mu       sync.RWMutex
	s        *Sched
	name     string
	w        bool
	r        int
	pendingW int
}

func (m *RWMutex) Manage(s *Sched, name string) {
	m.s, m.name, m.w, m.r, m.pendingW = s, name, false, 0, 0
}

// Managed reports whether the mutex is under a scheduler.
func (m *RWMutex) Managed() bool { return m.s != nil }

func (m *RWMutex) Lock() {
	if m.s == nil {
		m.mu.Lock()
		return
	}
	m.s.Point("Lock " + m.name)
	if m.w || m.r > 0 {
		m.pendingW++
		m.s.Block("Lock(wait) "+m.name, func() bool { return !m.w && m.r == 0 })
		m.pendingW--
	}
	m.w = true
}

func (m *RWMutex) Unlock() {
	if m.s == nil {
		m.mu.Unlock()
		return
	}
	m.w = false
}

func (m *RWMutex) RLock() {
	if m.s == nil {
		m.mu.RLock()
		return
	}
	m.s.Point("RLock " + m.name)
	if m.w || m.pendingW > 0 {
		m.s.Block("RLock(wait) "+m.name, func() bool { return !m.w && m.pendingW == 0 })
	}
	m.r++
}

func (m *RWMutex) RUnlock() {
	if m.s == nil {
		m.mu.RUnlock()
		return
	}
	m.r--
}

func (m *RWMutex) RLocker() Locker { return (*rlocker)(m) }

type rlocker RWMutex

func (r *rlocker) Lock()   { (*RWMutex)(r).RLock() }
func (r *rlocker) Unlock() { (*RWMutex)(r).RUnlock() }

// DoneExcept reports whether every thread except those named `name` has finished. To be called from a Block
// predicate or from the scheduler (all threads parked).
func (s *Sched) DoneExcept(name string) bool {
	for _, t := range s.threads {
		if t.Name != name && t.state != stDone {
			return false
		}
	}
	return true
}
