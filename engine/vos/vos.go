// Package vos is the storage seam of the crash-consistency checks (DESIGN §3.3): an in-memory file
// system and key-value databases that share ONE operation journal, a crash switch ("stop before
// journal entry k") and a materialiser that rebuilds what is on disk after a crash at k under an
// explicit durability model.
//
// It stands in for package "os" in a handful of repository files through an import rewrite made by
// bin/check (`os ".../internal/verif/vos"`). Paths outside a registered world (prefix /vos/<id>/)
// pass through to the real os package, so code that is not under test behaves as always.
//
// Durability model (machine crash): directory operations (create, rename, remove, mkdir) are
// durable in order; file content is durable up to the last fsync (every write for O_SYNC handles);
// the unsynced tail of a file survives to any chosen length (the enumerator tries every one);
// database writes are durable in order (process-crash model) or, per database, rolled back to the
// last synced write (machine-crash model, chosen by the policy).
package vos

import (
	"errors"
	"fmt"
	"io"
	"io/fs"
	"os"
	"path/filepath"
	"sort"
	"strings"
	"sync"
	"time"
)

// ---- re-exports of the os identifiers the rewritten files use --------------------------------

type (
	FileMode = fs.FileMode
	FileInfo = fs.FileInfo
	Signal   = os.Signal
)

const (
	O_RDONLY = os.O_RDONLY
	O_WRONLY = os.O_WRONLY
	O_RDWR   = os.O_RDWR
	O_APPEND = os.O_APPEND
	O_CREATE = os.O_CREATE
	O_EXCL   = os.O_EXCL
	O_SYNC   = os.O_SYNC
	O_TRUNC  = os.O_TRUNC
)

var (
	Interrupt   = os.Interrupt
	ErrNotExist = os.ErrNotExist
	ErrExist    = os.ErrExist
)

func Getpid() int                            { return os.Getpid() }
func FindProcess(pid int) (*os.Process, error) { return os.FindProcess(pid) }
func IsExist(err error) bool                 { return os.IsExist(err) || errors.Is(err, fs.ErrExist) }
func IsNotExist(err error) bool              { return os.IsNotExist(err) || errors.Is(err, fs.ErrNotExist) }

// ExitPanic is what Exit panics with: a process exit must not kill the test binary.
type ExitPanic struct{ Code int }

func Exit(code int) { panic(ExitPanic{code}) }

// CrashPanic unwinds the node when the crash point is reached.
type CrashPanic struct{ At int }

var ErrCrashed = errors.New("vos: the simulated machine has crashed")

// ---- world -------------------------------------------------------------------------------------

type Op struct {
	Seq    int    `json:"seq"`
	Kind   string `json:"kind"` // create write fsync rename remove mkdir dbset dbdel dbbatch note
	Target string `json:"target"`
	Arg    string `json:"arg,omitempty"`
	Data   []byte `json:"-"`
	Len    int    `json:"len,omitempty"`
	Sync   bool   `json:"sync,omitempty"`
	batch  []batchOp
}

func (o Op) String() string {
	s := fmt.Sprintf("#%d %s %s", o.Seq, o.Kind, o.Target)
	if o.Arg != "" {
		s += " " + o.Arg
	}
	if o.Len > 0 {
		s += fmt.Sprintf(" (%dB)", o.Len)
	}
	if o.Sync {
		s += " sync"
	}
	return s
}

type node struct {
	path   string
	dir    bool
	data   []byte
	synced int
	perm   FileMode
	mtime  time.Time
}

type World struct {
	mu      sync.Mutex
	Root    string
	files   map[string]*node
	dbs     map[string]*DB
	journal []Op
	// what the world contained when it was materialised from a crashed one (replays start from here)
	baseFiles map[string]*node
	baseDB    map[string][]Op
	crashAt int
	failIn  int // >= 0: the failIn-th next journalled operation fails with ErrIO (once) instead of happening
	crashed bool
	// OnOp, when set, is called (under the world lock) for every journalled operation
	OnOp func(Op)
}

var (
	worldsMu sync.RWMutex
	worlds   = map[string]*World{}
	worldSeq int
)

// NewWorld creates and registers an empty world; its files live under w.Root.
func NewWorld() *World {
	worldsMu.Lock()
	defer worldsMu.Unlock()
	worldSeq++
	w := &World{Root: fmt.Sprintf("/vos/w%d", worldSeq), files: map[string]*node{}, dbs: map[string]*DB{}, crashAt: -1, failIn: -1}
	w.files[w.Root] = &node{path: w.Root, dir: true, perm: 0o755}
	worlds[w.Root] = w
	return w
}

// Close unregisters the world.
func (w *World) Close() {
	worldsMu.Lock()
	delete(worlds, w.Root)
	worldsMu.Unlock()
}

func worldOf(path string) *World {
	if !strings.HasPrefix(path, "/vos/") {
		return nil
	}
	rest := path[len("/vos/"):]
	id := rest
	if i := strings.IndexByte(rest, '/'); i >= 0 {
		id = rest[:i]
	}
	worldsMu.RLock()
	w := worlds["/vos/"+id]
	worldsMu.RUnlock()
	return w
}

// CrashBefore arms the crash switch: the operation that would become journal entry k is not
// performed; the calling goroutine panics with CrashPanic and every later operation fails.
func (w *World) CrashBefore(k int) { w.mu.Lock(); w.crashAt = k; w.mu.Unlock() }

// ErrIO is what an operation chosen by FailNext returns: the device refused it, nothing happened.
var ErrIO = errors.New("vos: input/output error (injected)")

// FailNext arms one injected failure: the n-th next journalled operation (0 = the very next) returns ErrIO and has
// no effect; n < 0 disarms. FailArmed tells whether the failure is still waiting.
func (w *World) FailNext(n int) { w.mu.Lock(); w.failIn = n; w.mu.Unlock() }
func (w *World) FailArmed() bool { w.mu.Lock(); defer w.mu.Unlock(); return w.failIn >= 0 }

// Freeze kills the machine now, without unwinding anybody: every later operation fails with ErrCrashed.
func (w *World) Freeze() { w.mu.Lock(); w.crashed = true; w.mu.Unlock() }

func (w *World) Crashed() bool { w.mu.Lock(); defer w.mu.Unlock(); return w.crashed }

// JournalLen is the number of operations performed so far.
func (w *World) JournalLen() int { w.mu.Lock(); defer w.mu.Unlock(); return len(w.journal) }

func (w *World) Journal() []Op {
	w.mu.Lock()
	defer w.mu.Unlock()
	return append([]Op{}, w.journal...)
}

// SyncAll makes everything written so far durable (a `sync` after one-time initialisation).
func (w *World) SyncAll() {
	w.mu.Lock()
	var paths []string
	for p, n := range w.files {
		if !n.dir && n.synced < len(n.data) {
			paths = append(paths, p)
		}
	}
	w.mu.Unlock()
	sort.Strings(paths)
	for _, p := range paths {
		if err := w.record(Op{Kind: "fsync", Target: p}); err != nil {
			return
		}
		w.mu.Lock()
		if n, ok := w.files[p]; ok {
			n.synced = len(n.data)
		}
		w.mu.Unlock()
	}
}

// Note journals an external event (an ABCI call, a marker) so that it is a crash point too.
func (w *World) Note(what string) { _ = w.record(Op{Kind: "note", Target: what}) }

// record appends op to the journal or triggers the crash. Caller must NOT hold w.mu.
func (w *World) record(op Op) error {
	w.mu.Lock()
	if w.crashed {
		w.mu.Unlock()
		return ErrCrashed
	}
	if w.crashAt >= 0 && len(w.journal) >= w.crashAt {
		w.crashed = true
		at := len(w.journal)
		w.mu.Unlock()
		panic(CrashPanic{At: at})
	}
	if w.failIn == 0 && op.Kind != "note" {
		w.failIn = -1
		w.mu.Unlock()
		return ErrIO
	} else if w.failIn > 0 && op.Kind != "note" {
		w.failIn--
	}
	op.Seq = len(w.journal)
	op.Len = len(op.Data)
	w.journal = append(w.journal, op)
	if w.OnOp != nil {
		w.OnOp(op)
	}
	w.mu.Unlock()
	return nil
}

// ---- files -------------------------------------------------------------------------------------

type File struct {
	real *os.File
	w    *World
	n    *node
	name string
	flag int
	pos  int
	dirRead bool
}

type info struct {
	name string
	size int64
	mode FileMode
	dir  bool
	mt   time.Time
}

func (i info) Name() string       { return i.name }
func (i info) Size() int64        { return i.size }
func (i info) Mode() FileMode     { return i.mode }
func (i info) ModTime() time.Time { return i.mt }
func (i info) IsDir() bool        { return i.dir }
func (i info) Sys() interface{}   { return nil }

func (n *node) info() info {
	m := n.perm
	if n.dir {
		m |= fs.ModeDir
	}
	return info{name: filepath.Base(n.path), size: int64(len(n.data)), mode: m, dir: n.dir, mt: n.mtime}
}

func pathErr(op, path string, err error) error { return &fs.PathError{Op: op, Path: path, Err: err} }

func OpenFile(name string, flag int, perm FileMode) (*File, error) {
	w := worldOf(name)
	if w == nil {
		f, err := os.OpenFile(name, flag, perm)
		if err != nil {
			return nil, err
		}
		return &File{real: f, name: name}, nil
	}
	name = filepath.Clean(name)
	w.mu.Lock()
	n, ok := w.files[name]
	_, parentOK := w.files[filepath.Dir(name)]
	w.mu.Unlock()
	if ok && flag&O_CREATE != 0 && flag&O_EXCL != 0 {
		return nil, pathErr("open", name, fs.ErrExist)
	}
	if !ok {
		if flag&O_CREATE == 0 {
			return nil, pathErr("open", name, fs.ErrNotExist)
		}
		if !parentOK {
			return nil, pathErr("open", name, fs.ErrNotExist)
		}
		if err := w.record(Op{Kind: "create", Target: name}); err != nil {
			return nil, err
		}
		n = &node{path: name, perm: perm & 0o777}
		w.mu.Lock()
		w.files[name] = n
		w.mu.Unlock()
	} else if flag&O_TRUNC != 0 && !n.dir && len(n.data) > 0 {
		if err := w.record(Op{Kind: "create", Target: name, Arg: "trunc"}); err != nil {
			return nil, err
		}
		w.mu.Lock()
		n.data, n.synced = nil, 0
		w.mu.Unlock()
	}
	return &File{w: w, n: n, name: name, flag: flag}, nil
}

func Open(name string) (*File, error)   { return OpenFile(name, O_RDONLY, 0) }
func Create(name string) (*File, error) { return OpenFile(name, O_RDWR|O_CREATE|O_TRUNC, 0o666) }

func (f *File) Name() string { return f.name }

func (f *File) Write(b []byte) (int, error) {
	if f.real != nil {
		return f.real.Write(b)
	}
	if f.flag&(O_WRONLY|O_RDWR) == 0 {
		return 0, pathErr("write", f.name, errors.New("bad file descriptor"))
	}
	if len(b) == 0 {
		return 0, nil
	}
	f.w.mu.Lock()
	path := f.n.path
	off := f.pos
	if f.flag&O_APPEND != 0 {
		off = len(f.n.data)
	}
	f.w.mu.Unlock()
	if err := f.w.record(Op{Kind: "write", Target: path, Arg: fmt.Sprint(off), Data: append([]byte{}, b...), Sync: f.flag&O_SYNC != 0}); err != nil {
		return 0, err
	}
	f.w.mu.Lock()
	f.n.writeAt(off, b)
	if f.flag&O_SYNC != 0 {
		f.n.synced = len(f.n.data)
	}
	f.n.mtime = time.Unix(int64(len(f.w.journal)), 0)
	f.pos = off + len(b)
	f.w.mu.Unlock()
	return len(b), nil
}

func (n *node) writeAt(off int, b []byte) {
	if need := off + len(b); need > len(n.data) {
		n.data = append(n.data, make([]byte, need-len(n.data))...)
	}
	copy(n.data[off:], b)
	if off < n.synced {
		n.synced = off // overwritten region is no longer known durable
	}
}

func (f *File) Read(b []byte) (int, error) {
	if f.real != nil {
		return f.real.Read(b)
	}
	f.w.mu.Lock()
	defer f.w.mu.Unlock()
	if f.pos >= len(f.n.data) {
		return 0, io.EOF
	}
	n := copy(b, f.n.data[f.pos:])
	f.pos += n
	return n, nil
}

func (f *File) Sync() error {
	if f.real != nil {
		return f.real.Sync()
	}
	f.w.mu.Lock()
	path := f.n.path
	f.w.mu.Unlock()
	if err := f.w.record(Op{Kind: "fsync", Target: path}); err != nil {
		return err
	}
	f.w.mu.Lock()
	f.n.synced = len(f.n.data)
	f.w.mu.Unlock()
	return nil
}

func (f *File) Close() error {
	if f.real != nil {
		return f.real.Close()
	}
	return nil
}

func (f *File) Stat() (FileInfo, error) {
	if f.real != nil {
		return f.real.Stat()
	}
	f.w.mu.Lock()
	defer f.w.mu.Unlock()
	return f.n.info(), nil
}

func (f *File) Readdir(count int) ([]FileInfo, error) {
	if f.real != nil {
		return f.real.Readdir(count)
	}
	f.w.mu.Lock()
	defer f.w.mu.Unlock()
	if f.dirRead && count > 0 {
		return nil, io.EOF
	}
	f.dirRead = true
	var names []string
	for p := range f.w.files {
		if filepath.Dir(p) == f.n.path && p != f.n.path {
			names = append(names, p)
		}
	}
	sort.Strings(names)
	var out []FileInfo
	for _, p := range names {
		out = append(out, f.w.files[p].info())
	}
	return out, nil
}

func Stat(name string) (FileInfo, error) {
	w := worldOf(name)
	if w == nil {
		return os.Stat(name)
	}
	name = filepath.Clean(name)
	w.mu.Lock()
	defer w.mu.Unlock()
	n, ok := w.files[name]
	if !ok {
		return nil, pathErr("stat", name, fs.ErrNotExist)
	}
	return n.info(), nil
}

func Remove(name string) error {
	w := worldOf(name)
	if w == nil {
		return os.Remove(name)
	}
	name = filepath.Clean(name)
	w.mu.Lock()
	_, ok := w.files[name]
	w.mu.Unlock()
	if !ok {
		return pathErr("remove", name, fs.ErrNotExist)
	}
	if err := w.record(Op{Kind: "remove", Target: name}); err != nil {
		return err
	}
	w.mu.Lock()
	delete(w.files, name)
	w.mu.Unlock()
	return nil
}

func Rename(oldpath, newpath string) error {
	w := worldOf(oldpath)
	if w == nil {
		return os.Rename(oldpath, newpath)
	}
	oldpath, newpath = filepath.Clean(oldpath), filepath.Clean(newpath)
	w.mu.Lock()
	n, ok := w.files[oldpath]
	w.mu.Unlock()
	if !ok {
		return pathErr("rename", oldpath, fs.ErrNotExist)
	}
	if err := w.record(Op{Kind: "rename", Target: oldpath, Arg: newpath}); err != nil {
		return err
	}
	w.mu.Lock()
	delete(w.files, oldpath)
	n.path = newpath
	w.files[newpath] = n
	w.mu.Unlock()
	return nil
}

func MkdirAll(path string, perm FileMode) error {
	w := worldOf(path)
	if w == nil {
		return os.MkdirAll(path, perm)
	}
	path = filepath.Clean(path)
	var missing []string
	w.mu.Lock()
	for p := path; p != w.Root && p != "/" && p != "."; p = filepath.Dir(p) {
		if _, ok := w.files[p]; !ok {
			missing = append([]string{p}, missing...)
		}
	}
	w.mu.Unlock()
	for _, p := range missing {
		if err := w.record(Op{Kind: "mkdir", Target: p}); err != nil {
			return err
		}
		w.mu.Lock()
		w.files[p] = &node{path: p, dir: true, perm: perm & 0o777}
		w.mu.Unlock()
	}
	return nil
}

func ReadFile(name string) ([]byte, error) {
	w := worldOf(name)
	if w == nil {
		return os.ReadFile(name)
	}
	name = filepath.Clean(name)
	w.mu.Lock()
	defer w.mu.Unlock()
	n, ok := w.files[name]
	if !ok || n.dir {
		return nil, pathErr("open", name, fs.ErrNotExist)
	}
	return append([]byte{}, n.data...), nil
}

func WriteFile(name string, data []byte, perm FileMode) error {
	if worldOf(name) == nil {
		return os.WriteFile(name, data, perm)
	}
	f, err := OpenFile(name, O_WRONLY|O_CREATE|O_TRUNC, perm)
	if err != nil {
		return err
	}
	_, err = f.Write(data)
	return err
}

// ---- inspection helpers for harnesses ----------------------------------------------------------

// FileBytes returns the current content of a file (nil if absent).
func (w *World) FileBytes(path string) []byte {
	w.mu.Lock()
	defer w.mu.Unlock()
	if n, ok := w.files[filepath.Clean(path)]; ok {
		return append([]byte{}, n.data...)
	}
	return nil
}

// SetFileBytes overwrites a file's content directly (corruption injection); not journalled.
func (w *World) SetFileBytes(path string, data []byte) {
	w.mu.Lock()
	defer w.mu.Unlock()
	if n, ok := w.files[filepath.Clean(path)]; ok {
		n.data = append([]byte{}, data...)
		n.synced = len(n.data)
	}
}

// Files lists the regular files of the world with their sizes.
func (w *World) Files() map[string]int {
	w.mu.Lock()
	defer w.mu.Unlock()
	out := map[string]int{}
	for p, n := range w.files {
		if !n.dir {
			out[p] = len(n.data)
		}
	}
	return out
}

// ---- crash materialisation ---------------------------------------------------------------------

// Policy chooses, for a crash, what happens to data that was written but not made durable.
type Policy struct {
	// Tail gives, per file path (as of the crash), how many unsynced bytes survive; files not
	// listed keep their whole unsynced tail when KeepUnsynced is true and none of it otherwise.
	Tail         map[string]int
	KeepUnsynced bool
	// MachineDB: database writes after the last synced write of that database are lost.
	MachineDB bool
}

// Unsynced describes the file tails a crash before entry k leaves undecided: path -> [synced, written].
func (w *World) Unsynced(k int) map[string][2]int {
	st := w.replay(k)
	out := map[string][2]int{}
	for p, n := range st.files {
		if !n.dir && n.synced < len(n.data) {
			out[p] = [2]int{n.synced, len(n.data)}
		}
	}
	return out
}

type replayState struct {
	files map[string]*node
	dbs   map[string]*dbReplay
}

func (w *World) replay(k int) *replayState {
	w.mu.Lock()
	ops := append([]Op{}, w.journal...)
	names := []string{}
	for n := range w.dbs {
		names = append(names, n)
	}
	w.mu.Unlock()
	if k > len(ops) || k < 0 {
		k = len(ops)
	}
	st := &replayState{files: map[string]*node{w.Root: {path: w.Root, dir: true, perm: 0o755}}, dbs: map[string]*dbReplay{}}
	for _, n := range names {
		st.dbs[n] = &dbReplay{}
	}
	w.mu.Lock()
	for p, n := range w.baseFiles {
		st.files[p] = &node{path: n.path, dir: n.dir, perm: n.perm, data: append([]byte{}, n.data...), synced: n.synced}
	}
	for name, ops := range w.baseDB {
		st.dbs[name] = &dbReplay{ops: append([]Op{}, ops...), syncedUpTo: len(ops)}
	}
	w.mu.Unlock()
	for _, op := range ops[:k] {
		switch op.Kind {
		case "create":
			if n, ok := st.files[op.Target]; ok {
				n.data, n.synced = nil, 0
			} else {
				st.files[op.Target] = &node{path: op.Target, perm: 0o600}
			}
		case "mkdir":
			st.files[op.Target] = &node{path: op.Target, dir: true, perm: 0o700}
		case "write":
			n := st.files[op.Target]
			var off int
			fmt.Sscan(op.Arg, &off)
			n.writeAt(off, op.Data)
			if op.Sync {
				n.synced = len(n.data)
			}
		case "fsync":
			n := st.files[op.Target]
			n.synced = len(n.data)
		case "rename":
			n := st.files[op.Target]
			delete(st.files, op.Target)
			n.path = op.Arg
			st.files[op.Arg] = n
		case "remove":
			delete(st.files, op.Target)
		case "dbset", "dbdel", "dbbatch":
			d := st.dbs[op.Target]
			if d == nil {
				d = &dbReplay{}
				st.dbs[op.Target] = d
			}
			d.ops = append(d.ops, op)
			if op.Sync {
				d.syncedUpTo = len(d.ops)
			}
		}
	}
	return st
}

// Materialise builds the world a restarted process would find after a crash before entry k.
// File permissions are carried over from the live world where the path still exists.
func (w *World) Materialise(k int, pol Policy) *World {
	st := w.replay(k)
	nw := NewWorld()
	for p, n := range st.files {
		np := nw.Root + strings.TrimPrefix(p, w.Root)
		cp := &node{path: np, dir: n.dir, perm: n.perm}
		if !n.dir {
			keep := len(n.data)
			if n.synced < len(n.data) {
				if t, ok := pol.Tail[p]; ok {
					keep = n.synced + t
				} else if !pol.KeepUnsynced {
					keep = n.synced
				}
				if keep > len(n.data) {
					keep = len(n.data)
				}
			}
			cp.data = append([]byte{}, n.data[:keep]...)
			cp.synced = keep
		}
		nw.files[np] = cp
	}
	nw.baseFiles = map[string]*node{}
	for p, n := range nw.files {
		nw.baseFiles[p] = &node{path: n.path, dir: n.dir, perm: n.perm, data: append([]byte{}, n.data...), synced: n.synced}
	}
	nw.baseDB = map[string][]Op{}
	for name, d := range st.dbs {
		ops := d.ops
		if pol.MachineDB {
			ops = ops[:d.syncedUpTo]
		}
		db := nw.DB(name)
		for _, op := range ops {
			db.applyRaw(op)
		}
		nw.baseDB[name] = append([]Op{}, ops...)
	}
	return nw
}

// Rebase rewrites a path of world w into the corresponding path of world nw.
func Rebase(path string, from, to *World) string { return to.Root + strings.TrimPrefix(path, from.Root) }
