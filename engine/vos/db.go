package vos

import (
	"errors"

	dbm "github.com/tendermint/tm-db"
)

// DB is a dbm.DB over MemDB whose every mutation is an entry of the world's journal (a batch is one
// entry) and therefore a crash point.
type DB struct {
	w     *World
	name  string
	inner *dbm.MemDB
}

type batchOp struct {
	del bool
	k   []byte
	v   []byte
}

type dbReplay struct {
	ops        []Op
	syncedUpTo int
}

// DB returns (creating it if needed) the named database of the world.
func (w *World) DB(name string) *DB {
	w.mu.Lock()
	defer w.mu.Unlock()
	if d, ok := w.dbs[name]; ok {
		return d
	}
	d := &DB{w: w, name: name, inner: dbm.NewMemDB()}
	w.dbs[name] = d
	return d
}

var _ dbm.DB = (*DB)(nil)

func (d *DB) applyRaw(op Op) {
	switch op.Kind {
	case "dbset":
		_ = d.inner.Set([]byte(op.Arg), op.Data)
	case "dbdel":
		_ = d.inner.Delete([]byte(op.Arg))
	case "dbbatch":
		for _, b := range op.batch {
			if b.del {
				_ = d.inner.Delete(b.k)
			} else {
				_ = d.inner.Set(b.k, b.v)
			}
		}
	}
}

func (d *DB) Get(k []byte) ([]byte, error) { return d.inner.Get(k) }
func (d *DB) Has(k []byte) (bool, error)   { return d.inner.Has(k) }

func (d *DB) set(k, v []byte, sync bool) error {
	if len(k) == 0 {
		return errors.New("key cannot be empty")
	}
	if v == nil {
		return errors.New("value cannot be nil")
	}
	op := Op{Kind: "dbset", Target: d.name, Arg: string(k), Data: append([]byte{}, v...), Sync: sync}
	if err := d.w.record(op); err != nil {
		return err
	}
	return d.inner.Set(k, v)
}

func (d *DB) Set(k, v []byte) error     { return d.set(k, v, false) }
func (d *DB) SetSync(k, v []byte) error { return d.set(k, v, true) }

func (d *DB) del(k []byte, sync bool) error {
	if len(k) == 0 {
		return errors.New("key cannot be empty")
	}
	if err := d.w.record(Op{Kind: "dbdel", Target: d.name, Arg: string(k), Sync: sync}); err != nil {
		return err
	}
	return d.inner.Delete(k)
}

func (d *DB) Delete(k []byte) error     { return d.del(k, false) }
func (d *DB) DeleteSync(k []byte) error { return d.del(k, true) }

func (d *DB) Iterator(s, e []byte) (dbm.Iterator, error)        { return d.inner.Iterator(s, e) }
func (d *DB) ReverseIterator(s, e []byte) (dbm.Iterator, error) { return d.inner.ReverseIterator(s, e) }
func (d *DB) Close() error                                      { return nil }
func (d *DB) Print() error                                      { return nil }
func (d *DB) Stats() map[string]string                          { return map[string]string{"vos": d.name} }

// Inner exposes the MemDB for read-only audits.
func (d *DB) Inner() *dbm.MemDB { return d.inner }

type batch struct {
	d    *DB
	ops  []batchOp
	done bool
}

func (d *DB) NewBatch() dbm.Batch { return &batch{d: d} }

func (b *batch) Set(k, v []byte) error {
	if b.done {
		return errors.New("batch has been written or closed")
	}
	if len(k) == 0 {
		return errors.New("key cannot be empty")
	}
	if v == nil {
		return errors.New("value cannot be nil")
	}
	b.ops = append(b.ops, batchOp{k: append([]byte{}, k...), v: append([]byte{}, v...)})
	return nil
}

func (b *batch) Delete(k []byte) error {
	if b.done {
		return errors.New("batch has been written or closed")
	}
	if len(k) == 0 {
		return errors.New("key cannot be empty")
	}
	b.ops = append(b.ops, batchOp{del: true, k: append([]byte{}, k...)})
	return nil
}

func (b *batch) write(sync bool) error {
	if b.done {
		return errors.New("batch has been written or closed")
	}
	op := Op{Kind: "dbbatch", Target: b.d.name, Sync: sync, batch: b.ops, Len: len(b.ops)}
	if err := b.d.w.record(op); err != nil {
		return err
	}
	b.d.applyRaw(op)
	b.done = true
	return nil
}

func (b *batch) Write() error     { return b.write(false) }
func (b *batch) WriteSync() error { return b.write(true) }
func (b *batch) Close() error     { b.done = true; return nil }

// BatchOps exposes the content of a journalled batch (for torn-batch enumeration).
func (o Op) BatchLen() int { return len(o.batch) }

// TearBatch returns a copy of op holding only the first n operations of the batch.
func (o Op) TearBatch(n int) Op {
	c := o
	c.batch = append([]batchOp{}, o.batch[:n]...)
	return c
}

// MaterialiseTorn is Materialise with the batch at journal entry k-1... see below: the crash falls
// INSIDE the batch entry `k` (which must be a dbbatch): entries < k are applied whole, then only the
// first n operations of entry k.
func (w *World) MaterialiseTorn(k, n int, pol Policy) *World {
	nw := w.Materialise(k, pol)
	w.mu.Lock()
	op := w.journal[k]
	w.mu.Unlock()
	if op.Kind != "dbbatch" {
		panic("vos: MaterialiseTorn on a non-batch entry")
	}
	torn := op.TearBatch(n)
	nw.DB(op.Target).applyRaw(torn)
	nw.baseDB[op.Target] = append(nw.baseDB[op.Target], torn)
	return nw
}
